#!/bin/bash
# usage: tools/keep.sh <change dir> <property> <name> "<needs>" <check>...   — evaluate (tools/evalseed.sh) and archive (tools/keepseed.py)
d=$1; p=$2; n=$3; needs=$4; shift 4
r=$(/verif/tools/evalseed.sh "$d" "$@"); echo "$r"; /verif/tools/keepseed.py "$d" "$p" "$n" "$needs" "$r"
