package harness

// Independent reference codecs, written from data/esdt/proto/esdt.proto and the protobuf wire-format specification,
// not from the generated code: they are the oracle side of C14, and the engine reads ledger entries with them so
// that it never trusts the code under test to describe its own output.  Also the 10-line "@"/hex tx-data codec.

import (
	"bytes"
	"encoding/hex"
	"errors"
	"fmt"
	"math/big"
	"strings"
)

// RefMeta mirrors message MetaData (fields 1..7).
type RefMeta struct {
	Nonce      uint64
	Name       []byte
	Creator    []byte
	Royalties  uint32
	Hash       []byte
	URIs       [][]byte
	Attributes []byte
}

// RefToken mirrors message ESDigitalToken (fields 1..5).  Value nil means "absent amount" (encoded as the single byte 0).
type RefToken struct {
	Type       uint32
	Value      *big.Int
	Properties []byte
	Meta       *RefMeta
	Reserved   []byte
}

func putVarint(b []byte, v uint64) []byte {
	for v >= 0x80 {
		b = append(b, byte(v)|0x80)
		v >>= 7
	}
	return append(b, byte(v))
}

func putBytesField(b []byte, field int, v []byte) []byte {
	b = putVarint(b, uint64(field<<3|2))
	b = putVarint(b, uint64(len(v)))
	return append(b, v...)
}

// RefEncodeAmount is the documented amount format: nil -> {0}; 0 -> {0,0}; otherwise sign byte (0 plus, 1 minus)
// followed by the big-endian magnitude.
func RefEncodeAmount(v *big.Int) []byte {
	if v == nil {
		return []byte{0}
	}
	if v.Sign() == 0 {
		return []byte{0, 0}
	}
	sign := byte(0)
	if v.Sign() < 0 {
		sign = 1
	}
	return append([]byte{sign}, v.Bytes()...)
}

func RefEncodeMeta(m *RefMeta) []byte {
	var b []byte
	if m.Nonce != 0 {
		b = putVarint(b, 1<<3|0)
		b = putVarint(b, m.Nonce)
	}
	if len(m.Name) > 0 {
		b = putBytesField(b, 2, m.Name)
	}
	if len(m.Creator) > 0 {
		b = putBytesField(b, 3, m.Creator)
	}
	if m.Royalties != 0 {
		b = putVarint(b, 4<<3|0)
		b = putVarint(b, uint64(m.Royalties))
	}
	if len(m.Hash) > 0 {
		b = putBytesField(b, 5, m.Hash)
	}
	for _, u := range m.URIs {
		b = putBytesField(b, 6, u)
	}
	if len(m.Attributes) > 0 {
		b = putBytesField(b, 7, m.Attributes)
	}
	return b
}

func RefEncodeToken(t *RefToken) []byte {
	var b []byte
	if t.Type != 0 {
		b = putVarint(b, 1<<3|0)
		b = putVarint(b, uint64(t.Type))
	}
	b = putBytesField(b, 2, RefEncodeAmount(t.Value))
	if len(t.Properties) > 0 {
		b = putBytesField(b, 3, t.Properties)
	}
	if t.Meta != nil {
		b = putBytesField(b, 4, RefEncodeMeta(t.Meta))
	}
	if len(t.Reserved) > 0 {
		b = putBytesField(b, 5, t.Reserved)
	}
	return b
}

func RefEncodeRoles(roles [][]byte) []byte {
	var b []byte
	for _, r := range roles {
		b = putBytesField(b, 1, r)
	}
	return b
}

var errWire = errors.New("malformed wire data")

func getVarint(b []byte) (uint64, []byte, error) {
	var v uint64
	for i := 0; i < len(b) && i < 10; i++ {
		v |= uint64(b[i]&0x7f) << (7 * uint(i))
		if b[i] < 0x80 {
			return v, b[i+1:], nil
		}
	}
	return 0, nil, errWire
}

type wireField struct {
	num  int
	wt   int
	u    uint64
	data []byte
}

func wireFields(b []byte) ([]wireField, error) {
	var out []wireField
	for len(b) > 0 {
		tag, rest, err := getVarint(b)
		if err != nil {
			return nil, err
		}
		b = rest
		f := wireField{num: int(tag >> 3), wt: int(tag & 7)}
		if f.num == 0 {
			return nil, errWire
		}
		switch f.wt {
		case 0:
			f.u, b, err = getVarint(b)
			if err != nil {
				return nil, err
			}
		case 2:
			var l uint64
			l, b, err = getVarint(b)
			if err != nil || l > uint64(len(b)) {
				return nil, errWire
			}
			f.data, b = b[:l], b[l:]
		case 1:
			if len(b) < 8 {
				return nil, errWire
			}
			b = b[8:]
		case 5:
			if len(b) < 4 {
				return nil, errWire
			}
			b = b[4:]
		default:
			return nil, errWire
		}
		out = append(out, f)
	}
	return out, nil
}

// RefDecodeAmount inverts RefEncodeAmount (strict: the sign byte must be 0 or 1).
func RefDecodeAmount(b []byte) (*big.Int, error) {
	switch {
	case len(b) == 0:
		return nil, errWire
	case len(b) == 1:
		if b[0] != 0 {
			return nil, errWire // only {0} is the documented encoding of an absent amount
		}
		return nil, nil
	}
	v := new(big.Int).SetBytes(b[1:])
	switch b[0] {
	case 0:
	case 1:
		v.Neg(v)
	default:
		return nil, errWire
	}
	return v, nil
}

func RefDecodeMeta(b []byte) (*RefMeta, error) {
	fs, err := wireFields(b)
	if err != nil {
		return nil, err
	}
	m := &RefMeta{}
	for _, f := range fs {
		switch {
		case f.num == 1 && f.wt == 0:
			m.Nonce = f.u
		case f.num == 2 && f.wt == 2:
			m.Name = append([]byte{}, f.data...)
		case f.num == 3 && f.wt == 2:
			m.Creator = append([]byte{}, f.data...)
		case f.num == 4 && f.wt == 0:
			m.Royalties = uint32(f.u)
		case f.num == 5 && f.wt == 2:
			m.Hash = append([]byte{}, f.data...)
		case f.num == 6 && f.wt == 2:
			m.URIs = append(m.URIs, append([]byte{}, f.data...))
		case f.num == 7 && f.wt == 2:
			m.Attributes = append([]byte{}, f.data...)
		case f.num >= 1 && f.num <= 7:
			return nil, errWire
		}
	}
	return m, nil
}

func RefDecodeToken(b []byte) (*RefToken, error) {
	fs, err := wireFields(b)
	if err != nil {
		return nil, err
	}
	t := &RefToken{}
	for _, f := range fs {
		switch {
		case f.num == 1 && f.wt == 0:
			t.Type = uint32(f.u)
		case f.num == 2 && f.wt == 2:
			t.Value, err = RefDecodeAmount(f.data)
			if err != nil {
				return nil, err
			}
		case f.num == 3 && f.wt == 2:
			t.Properties = append([]byte{}, f.data...)
		case f.num == 4 && f.wt == 2:
			t.Meta, err = RefDecodeMeta(f.data)
			if err != nil {
				return nil, err
			}
		case f.num == 5 && f.wt == 2:
			t.Reserved = append([]byte{}, f.data...)
		case f.num >= 1 && f.num <= 5:
			return nil, errWire
		}
	}
	return t, nil
}

func RefDecodeRoles(b []byte) ([][]byte, error) {
	fs, err := wireFields(b)
	if err != nil {
		return nil, err
	}
	var roles [][]byte
	for _, f := range fs {
		if f.num == 1 {
			if f.wt != 2 {
				return nil, errWire
			}
			roles = append(roles, append([]byte{}, f.data...))
		}
	}
	return roles, nil
}

func bytesEqNilEmpty(a, b []byte) bool { return bytes.Equal(a, b) }

func bigEq(a, b *big.Int) bool {
	if a == nil || b == nil {
		return a == nil && b == nil
	}
	return a.Cmp(b) == 0
}

func (m *RefMeta) Equal(o *RefMeta) bool {
	if m == nil || o == nil {
		return m == nil && o == nil
	}
	if m.Nonce != o.Nonce || m.Royalties != o.Royalties || !bytes.Equal(m.Name, o.Name) || !bytes.Equal(m.Creator, o.Creator) ||
		!bytes.Equal(m.Hash, o.Hash) || !bytes.Equal(m.Attributes, o.Attributes) || len(m.URIs) != len(o.URIs) {
		return false
	}
	for i := range m.URIs {
		if !bytes.Equal(m.URIs[i], o.URIs[i]) {
			return false
		}
	}
	return true
}

func (m *RefMeta) Clone() *RefMeta {
	if m == nil {
		return nil
	}
	c := &RefMeta{Nonce: m.Nonce, Royalties: m.Royalties, Name: cp(m.Name), Creator: cp(m.Creator), Hash: cp(m.Hash), Attributes: cp(m.Attributes)}
	for _, u := range m.URIs {
		c.URIs = append(c.URIs, cp(u))
	}
	return c
}

func (m *RefMeta) String() string {
	if m == nil {
		return "<no metadata>"
	}
	us := make([]string, len(m.URIs))
	for i, u := range m.URIs {
		us[i] = hx(u)
	}
	return fmt.Sprintf("{nonce=%d name=%x creator=%x royalties=%d hash=%x attrs=%x uris=[%s]}", m.Nonce, m.Name, m.Creator, m.Royalties, m.Hash, m.Attributes, strings.Join(us, ","))
}

func (t *RefToken) Equal(o *RefToken) bool {
	return t.Type == o.Type && bigEq(t.Value, o.Value) && bytes.Equal(t.Properties, o.Properties) && bytes.Equal(t.Reserved, o.Reserved) && t.Meta.Equal(o.Meta)
}

func cp(b []byte) []byte {
	if b == nil {
		return nil
	}
	return append([]byte{}, b...)
}

// ---- tx data: function@hex(arg)@hex(arg)… ----

// TxEncode is the documented transaction-data format.
func TxEncode(fn string, args [][]byte) string {
	s := fn
	for _, a := range args {
		s += "@" + hex.EncodeToString(a)
	}
	return s
}

// TxDecode is the harness's own decoder: split on '@', first token is the (non-empty) function, the rest strict hex.
func TxDecode(data string) (string, [][]byte, error) {
	toks := strings.Split(data, "@")
	if len(toks[0]) == 0 {
		return "", nil, errWire
	}
	args := make([][]byte, 0, len(toks)-1)
	for _, t := range toks[1:] {
		if len(t)%2 != 0 {
			return "", nil, errWire
		}
		a := make([]byte, len(t)/2)
		for i := 0; i < len(a); i++ {
			hi, lo := unhexDigit(t[2*i]), unhexDigit(t[2*i+1])
			if hi < 0 || lo < 0 {
				return "", nil, errWire
			}
			a[i] = byte(hi<<4 | lo)
		}
		args = append(args, a)
	}
	return toks[0], args, nil
}

func unhexDigit(c byte) int {
	switch {
	case c >= '0' && c <= '9':
		return int(c - '0')
	case c >= 'a' && c <= 'f':
		return int(c-'a') + 10
	case c >= 'A' && c <= 'F':
		return int(c-'A') + 10
	}
	return -1
}
