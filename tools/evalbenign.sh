#!/bin/bash
# usage: tools/evalbenign.sh <dir with patch.diff> [properties...]   (default: all 20)
# Applies a PROPERTY-PRESERVING change to a scratch copy of /repo and runs the quick checks against it: every check
# must stay silent (exit 0).  Nothing is applied to /repo.
set -u
ROOT=$(cd "$(dirname "$(readlink -f "$0")")/.." && pwd)
export GOFLAGS=-mod=mod GOPROXY=off GOSUMDB=off GOTOOLCHAIN=local
SRC=$(readlink -f "$1"); shift
PROPS="$@"; [ -z "$PROPS" ] && PROPS="C01 C02 C03 C04 C05 C06 C07 C08 C09 C10 C11 C12 C13 C14 C15 C16 C17 C18 C19 C20"
D=$(mktemp -d /var/tmp/benigneval.XXXXXX)
trap 'rm -rf "$D"' EXIT
(cd /repo && git archive HEAD) | tar -x -C "$D"
(cd "$D" && git init -q . >/dev/null 2>&1; git -C "$D" apply --unsafe-paths "$SRC/patch.diff" 2>/dev/null || patch -s -p1 -d "$D" < "$SRC/patch.diff") || { echo "PATCH-FAILED $SRC"; exit 3; }
SUITE=$(cd "$D" && go build ./... 2>&1 | head -3; go test -vet=off -count=1 ./... 2>&1 | grep -v "^ok\|no test files" | head -3)
[ -n "$SUITE" ] && echo "SUITE-FAILS: $SUITE"
ALARMS=""
for P in $PROPS; do
  OUT=$(cd "$ROOT" && VERIF_REPO="$D" VERIF_REPLAY_DIR="$ROOT/.build/benign-replays" ./check "$P" 2>&1); RC=$?
  if [ $RC -ne 0 ]; then ALARMS="$ALARMS $P"; echo "  ALARM $P rc=$RC $(echo "$OUT" | grep -m1 -A2 'VIOLATION\|INCONCLUSIVE' | tr '\n' ' ' | cut -c1-700)"; fi
done
echo "$(basename $(dirname $SRC))/$(basename $SRC): alarms:[${ALARMS# }]"
