package harness

// Shared runner for the properties decided on generated histories over the world simulator.

import (
	"encoding/json"
	"sort"
	"strings"
	"testing"

	"pgregory.net/rapid"
)

type historyCfg struct {
	prop     string
	also     []string // violations tagged with these properties are also reported by this check (same root statement)
	weights  Weights
	minSteps int
	maxSteps int
	gasBias  string
	// nontrivial decides whether an executed call counts as a non-trivial case for this property, and gives its class key.
	nontrivial func(rec *CallRecord, g *Gen) (string, bool)
	// setup may install hooks on a fresh engine (e.g. the determinism triple execution).
	setup func(e *Engine, st *Stats)
	// templates are directed scenario prefixes that reach the labelled shapes by construction.
	templates []func(g *Gen, run func(Op) bool)
	templateP int // one history in templateP starts with a template (0 = never)
	// shadowOps, when set, makes one history in shadowP run on a second ("shadow") world as well; at a drawn step the
	// shadow world alone gets the extra operations returned here (e.g. freeze;unfreeze), after which both worlds must
	// keep behaving identically (metamorphic relation).
	shadowOps func(g *Gen) []Op
	shadowP   int
	// before runs once per process before the generated histories (enumerative parts)
	before func(t *testing.T, st *Stats)
	// stats, when set, is used instead of a fresh Stats (the caller flushes it)
	stats *Stats
}

// decodedLedger renders a shard with balance entries decoded to (value, frozen, metadata): two ledgers that differ only
// in the byte representation of an entry (e.g. an all-zero Properties field left behind by unfreeze) render equal.
func decodedLedger(s *Shard) string {
	var b strings.Builder
	addrs := make([]string, 0, len(s.Accounts))
	for k := range s.Accounts {
		addrs = append(addrs, k)
	}
	sort.Strings(addrs)
	for _, k := range addrs {
		a := s.Accounts[k]
		line := sprintf("acct %x owner=%x name=%x bal=%v reward=%v", k, a.Owner, a.UserName, a.Balance, a.Reward)
		n := 0
		for _, sk := range sortedKeys(a.Storage) {
			v := a.Storage[sk]
			if strings.HasPrefix(sk, pfxESDT) && len(v) == 2 && refIsSystemAccount(a.Addr) {
				if v[0]&1 != 0 { // a pause flag; an entry that says "not paused" is the same as no entry
					line += sprintf(" [%q]=paused", sk)
					n++
				}
				continue
			}
			if strings.HasPrefix(sk, pfxESDT) && len(v) != 2 {
				if t, err := RefDecodeToken(v); err == nil && t.Value != nil {
					line += sprintf(" [%q]={%v frozen=%v meta=%v}", sk, t.Value, isFrozenProps(t.Properties), t.Meta)
					n++
					continue
				}
			}
			line += sprintf(" [%q]=%x", sk, v)
			n++
		}
		if n > 0 || len(a.Owner) > 0 || len(a.UserName) > 0 || a.Balance.Sign() != 0 || a.Reward.Sign() != 0 {
			b.WriteString(line + "\n")
		}
	}
	return b.String()
}

func hasProp(cl Clause, props []string) bool {
	for _, p := range cl.Props {
		for _, q := range props {
			if p == q {
				return true
			}
		}
	}
	return false
}

func outcomeOf(rec *CallRecord) string {
	switch {
	case rec.Res.Panic != nil:
		return "panic"
	case rec.Res.OK():
		return "ok"
	}
	return "err"
}

func renderCall(rec *CallRecord) map[string]interface{} {
	out := map[string]interface{}{"call": rec.Call.String(), "outcome": outcomeOf(rec), "side": rec.V.Side}
	if rec.Res.Err != nil {
		out["error"] = rec.Res.Err.Error()
	}
	if rec.Res.OK() {
		var diff []string
		for _, d := range rec.Res.Diff {
			diff = append(diff, sprintf("%s %q: %x -> %x", shortAddr([]byte(d.Account)), d.Key, d.Old, d.New))
		}
		out["diff"] = diff
		out["gas_remaining"] = rec.Res.Out.GasRemaining
	}
	return out
}

func runHistories(t *testing.T, cfg historyCfg) {
	st := cfg.stats
	if st == nil {
		st = NewStats(cfg.prop)
		defer finish(t, st)
	}
	known := LoadKnown(cfg.prop)
	props := append([]string{cfg.prop}, cfg.also...)
	histories := 0
	if cfg.before != nil {
		cfg.before(t, st)
	}

	rapid.Check(t, func(rt *rapid.T) {
		spec := GenSpec(rt)
		e := NewEngine(spec)
		if cfg.setup != nil {
			cfg.setup(e, st)
		}
		g := NewGen(rt, e, cfg.weights)
		g.GasBias = cfg.gasBias
		histories++
		st.AddExtra("histories", 1)
		trace := func() (string, interface{}) { return "history", Trace{Spec: spec, Ops: e.Ops} }
		hangTrace.Store(&trace)
		cut := false
		resyncs := 0

		var shadow *Engine
		shadowAt := -1
		if cfg.shadowOps != nil && cfg.shadowP > 0 && rapid.IntRange(0, cfg.shadowP-1).Draw(rt, "use-shadow") == 0 {
			shadow = NewEngine(spec)
			shadowAt = rapid.IntRange(1, cfg.maxSteps).Draw(rt, "shadow-at")
			st.AddExtra("shadowed_histories", 1)
		}
		nops := 0
		var shadowExtra []Op

		// run executes one operation with bookkeeping; returns false when the history must stop
		run := func(op Op) bool {
			nops++
			if shadow != nil && nops == shadowAt {
				shadowExtra = cfg.shadowOps(g)
				for _, x := range shadowExtra {
					if r := shadow.Apply(x); r != nil && !r.Res.OK() {
						shadow = nil // the inserted pair did not apply (e.g. already frozen): no relation to check
						break
					}
				}
				if shadow != nil {
					st.AddExtra("shadow_pairs_inserted", 1)
				}
			}
			rec := e.Apply(op)
			if shadow != nil {
				rec2 := shadow.Apply(op)
				if rec != nil && rec2 != nil && nops >= shadowAt {
					st.AddExtra("shadow_compared_calls", 1)
					same := canonOutput(rec.Res) == canonOutput(rec2.Res) && decodedLedger(e.W.Shards[rec.Call.Shard]) == decodedLedger(shadow.W.Shards[rec.Call.Shard])
					if !same {
						failRapid(rt, st, cfg.prop, "shadow-history", map[string]interface{}{"world": spec, "ops": e.Ops, "shadow_at": shadowAt, "shadow_ops": shadowExtra},
							rec.Call.Fn+"/behaviour-changed-after-flag-round-trip",
							sprintf("after the extra operations %v on a copy of the world, %s behaves differently:\n  original: %s\n  copy:     %s\n--- original ledger\n%s--- copy ledger\n%s",
								opsSummary(shadowExtra), rec.Call.String(), canonOutput(rec.Res), canonOutput(rec2.Res), decodedLedger(e.W.Shards[rec.Call.Shard]), decodedLedger(shadow.W.Shards[rec.Call.Shard])))
					}
				}
			}
			if rec == nil {
				st.Label("op/" + op.Kind)
				return true
			}
			st.Eval(1)
			layer := g.Layer
			st.Label(sprintf("call/%s/%s/%s", rec.Call.Fn, rec.V.Side, outcomeOf(rec)))
			st.Label("layer/" + layer)
			if rec.Res.Err != nil && rec.Res.Panic == nil {
				msg := rec.Res.Err.Error()
				if len(msg) > 48 {
					msg = msg[:48]
				}
				st.Label("error/" + rec.Call.Fn + "/" + msg)
			}
			for _, s := range g.Shape {
				st.Label("shape/" + s + "/" + outcomeOf(rec))
			}
			for _, l := range rec.V.Labels {
				st.Label("model/" + l + "/" + outcomeOf(rec))
			}
			if cfg.nontrivial != nil {
				if key, ok := cfg.nontrivial(rec, g); ok {
					st.NT(key)
					st.Sample(strings.SplitN(key, "|", 2)[0], renderCall(rec))
				}
			}
			mine, other, resynced, stop := afterRecord(e, rec, props, &resyncs)
			for _, cl := range mine {
				if known[cl.Sig] {
					st.KnownHit(cl.Sig)
					st.AddExtra("excluded_known", 1)
					if !cl.NoCut {
						cut = true
					}
					continue
				}
				failRapid(rt, st, cfg.prop, "history", Trace{Spec: spec, Ops: e.Ops}, cl.Sig, cl.Msg)
			}
			if len(other) > 0 {
				// another property's statement is broken here (that property's own check reports it): the model is
				// rebuilt from the ledger and the history goes on, or stops when the ledger cannot be abstracted
				if resynced {
					st.AddExtra("resynced_other_property", 1)
				} else {
					st.AddExtra("cut_other_property", 1)
				}
				st.Label("foreign/" + other[0].Props[0] + "/" + other[0].Sig)
			}
			if rec.Lost {
				st.AddExtra("model_lost", 1)
				st.Label("model-lost/" + rec.Call.Fn)
			}
			if stop {
				cut = true
			}
			return !cut
		}

		if cfg.templateP > 0 && len(cfg.templates) > 0 && rapid.IntRange(0, cfg.templateP-1).Draw(rt, "use-template") == 0 {
			tmpl := cfg.templates[rapid.IntRange(0, len(cfg.templates)-1).Draw(rt, "template")]
			st.AddExtra("templated_histories", 1)
			tmpl(g, run)
		}
		n := rapid.IntRange(cfg.minSteps, cfg.maxSteps).Draw(rt, "nsteps")
		for i := 0; i < n && !cut; i++ {
			if !run(g.Next()) {
				break
			}
		}
	})
}

// replayHistory interprets a saved trace with a plain loop and reports the first clause tagged with the property.
func replayHistory(props []string, setup func(e *Engine, st *Stats)) func(kind string, raw json.RawMessage) (string, string) {
	return func(kind string, raw json.RawMessage) (string, string) {
		if kind == "shadow-history" {
			return replayShadow(raw)
		}
		if kind != "history" {
			return "replay/unknown-kind", kind
		}
		var tr Trace
		if err := json.Unmarshal(raw, &tr); err != nil {
			return "replay/bad-file", err.Error()
		}
		e := NewEngine(tr.Spec)
		if setup != nil {
			setup(e, NewStats(props[0]))
		}
		resyncs := 0
		trace := func() (string, interface{}) { return "history", Trace{Spec: tr.Spec, Ops: e.Ops} }
		hangTrace.Store(&trace)
		for _, op := range tr.Ops {
			rec := e.Apply(op)
			if rec == nil {
				continue
			}
			mine, _, _, stop := afterRecord(e, rec, props, &resyncs)
			if len(mine) > 0 {
				return mine[0].Sig, mine[0].Msg
			}
			if stop {
				break
			}
		}
		return "", ""
	}
}

func opsSummary(ops []Op) string {
	var parts []string
	for _, o := range ops {
		if o.Call != nil {
			parts = append(parts, o.Call.String())
		} else {
			parts = append(parts, o.Kind)
		}
	}
	return strings.Join(parts, " ; ")
}

// replayShadow re-runs a saved shadow history: ops on both worlds, the extra operations on the copy at shadow_at.
func replayShadow(raw json.RawMessage) (string, string) {
	var doc struct {
		World     WorldSpec `json:"world"`
		Ops       []Op      `json:"ops"`
		ShadowAt  int       `json:"shadow_at"`
		ShadowOps []Op      `json:"shadow_ops"`
	}
	if err := json.Unmarshal(raw, &doc); err != nil {
		return "replay/bad-file", err.Error()
	}
	e, sh := NewEngine(doc.World), NewEngine(doc.World)
	for i, op := range doc.Ops {
		if i+1 == doc.ShadowAt {
			for _, x := range doc.ShadowOps {
				sh.Apply(x)
			}
		}
		r1, r2 := e.Apply(op), sh.Apply(op)
		if r1 != nil && r2 != nil && i+1 >= doc.ShadowAt {
			if canonOutput(r1.Res) != canonOutput(r2.Res) || decodedLedger(e.W.Shards[r1.Call.Shard]) != decodedLedger(sh.W.Shards[r1.Call.Shard]) {
				return r1.Call.Fn + "/behaviour-changed-after-flag-round-trip", sprintf("%s behaves differently after %s on the copy", r1.Call.String(), opsSummary(doc.ShadowOps))
			}
		}
	}
	return "", ""
}

func isTransfer(rec *CallRecord) bool { return transferFns[rec.Call.Fn] }

func amountClass(rec *CallRecord) string {
	if len(rec.V.msgItems) > 0 {
		return sprintf("items=%d", len(rec.V.msgItems))
	}
	return "single"
}
