package harness

// Generators: world specifications and model-aware operations (G1 intent level, G2 mutations, G3 unstructured).
// Every random choice is a rapid draw.

import (
	"bytes"
	"math/big"
	"sort"
	"strings"

	"pgregory.net/rapid"
)

func userAddr(idx int, shard int) []byte {
	a := bytes.Repeat([]byte{byte(0x11 + idx)}, 32)
	a[31] = byte(shard)
	return a
}

func scAddr(idx int, shard int) []byte {
	a := make([]byte, 32)
	a[8], a[9] = 0x05, 0x00
	for i := 10; i < 31; i++ {
		a[i] = byte(0xC1 + idx)
	}
	a[31] = byte(shard)
	return a
}

// metaSC is a second contract on the metachain (besides the ESDT system contract).
func metaSC() []byte {
	a := make([]byte, 32)
	a[9] = 1
	a[28], a[29], a[30], a[31] = 7, 7, 0xff, 0xff
	return a
}

var allRoles = []string{refESDTRoleLocalMint, refESDTRoleLocalBurn, refESDTRoleNFTCreate, refESDTRoleNFTAddQuantity,
	refESDTRoleNFTBurn, refESDTRoleNFTAddURI, refESDTRoleNFTUpdateAttributes}

var defaultTokens = []TokenInfo{{ID: "FNG-a1b2c3", Kind: "F"}, {ID: "FNH-d4e5f6", Kind: "F"}, {ID: "SFT-0a0b0c", Kind: "SFT"}, {ID: "NFT-112233", Kind: "NFT"}}

// GenSpec draws a world: 1-3 shards, two users and one contract per shard (+1 user on shard 0), a DNS contract.
func GenSpec(t *rapid.T) WorldSpec {
	n := rapid.SampledFrom([]int{2, 1, 3, 2, 2, 3, 1, 2}).Draw(t, "nshards")
	spec := genSpecBase(t, n)
	// mostly active from genesis; sometimes the three gated functions become active only at a later epoch
	spec.ActivationEpoch = rapid.SampledFrom([]uint32{0, 0, 0, 0, 1, 2, 3}).Draw(t, "activation")
	// mostly built at genesis; sometimes the chain is already in a later epoch when the containers are built
	spec.StartEpoch = rapid.SampledFrom([]uint32{0, 0, 0, 0, 0, 1, 2, 3, 5}).Draw(t, "start-epoch")
	// sometimes the factory hears of a schedule change before it builds the container (accepted, or one with a hole)
	switch rapid.IntRange(0, 7).Draw(t, "gas-before-create") {
	case 0:
		spec.GasBeforeCreate = DistinctGas(7)
	case 1:
		g := DistinctGas(3)
		delete(g[refBuiltInCostSection], "ESDTNFTBurn")
		spec.GasBeforeCreate = g
	}
	return spec
}

func genSpecBase(t *rapid.T, n int) WorldSpec {
	return MakeSpec(n, rapid.SampledFrom([]uint64{1, 1, 10}).Draw(t, "gasscale"), rapid.Bool().Draw(t, "namechange"),
		rapid.IntRange(0, 2).Draw(t, "ownerpick"), rapid.SampledFrom([]string{"0", "5", "1180591620717411303424"}).Draw(t, "reward"))
}

func MakeSpec(n int, gasScale uint64, nameChange bool, ownerPick int, reward string) WorldSpec {
	spec := WorldSpec{NShards: n, EnableNameChange: nameChange, Gas: DistinctGas(gasScale), Tokens: append([]TokenInfo{}, defaultTokens...)}
	for s := 0; s < n; s++ {
		spec.Users = append(spec.Users, userAddr(2*s, s), userAddr(2*s+1, s))
	}
	spec.Users = append(spec.Users, userAddr(7, 0))
	for s := 0; s < n; s++ {
		owner := spec.Users[(2*s+ownerPick)%len(spec.Users)]
		spec.Contracts = append(spec.Contracts, ContractSpec{Addr: scAddr(s, s), Owner: owner, Reward: reward})
	}
	// a second contract on shard 0, so that contract-to-contract calls (the only ones with call types other than
	// DirectCall, N7) also occur within one shard
	spec.Contracts = append(spec.Contracts, ContractSpec{Addr: scAddr(5, 0), Owner: spec.Users[(1+ownerPick)%len(spec.Users)], Reward: reward})
	spec.DNS = []HB{scAddr(0, 0)}
	return spec
}

// Weights selects how often each kind of operation is generated.
type Weights map[string]int

var baseWeights = Weights{
	"issue": 6, "setrole": 6, "unsetrole": 1, "transfer": 10, "nfttransfer": 8, "multi": 10, "mint": 3, "localburn": 2, "burn": 2,
	"create": 7, "addq": 2, "nftburn": 2, "adduri": 2, "update": 2, "freeze": 2, "unfreeze": 2, "wipe": 1, "pause": 1, "unpause": 2,
	"handover": 2, "seedhandover": 1, "deliver": 14, "redeliver": 1, "changeowner": 1, "claim": 1, "setusername": 1, "skv": 2,
	"payable": 2, "gas": 1, "epoch": 1, "mutate": 8, "unstructured": 4, "plant": 0, "replace": 1,
}

func (w Weights) with(over Weights) Weights {
	out := Weights{}
	for k, v := range w {
		out[k] = v
	}
	for k, v := range over {
		out[k] = v
	}
	return out
}

type Gen struct {
	t                     *rapid.T
	e                     *Engine
	w                     Weights
	kinds                 []string
	holders               [][]byte // users and contracts
	lastHandoverDelivered int
	GasBias               string // "" (mostly ample) | "tight" (around the charge)
	Layer                 string // label of the layer that produced the last op: G1 | G2 | G3 | sys | env
	Shape                 []string
}

func NewGen(t *rapid.T, e *Engine, w Weights) *Gen {
	g := &Gen{t: t, e: e, w: w}
	keys := make([]string, 0, len(w))
	for k := range w {
		keys = append(keys, k)
	}
	sort.Strings(keys)
	for _, k := range keys {
		for i := 0; i < w[k]; i++ {
			g.kinds = append(g.kinds, k)
		}
	}
	for _, u := range e.Spec.Users {
		g.holders = append(g.holders, u)
	}
	for _, c := range e.Spec.Contracts {
		g.holders = append(g.holders, c.Addr)
	}
	return g
}

// pick draws a UNIFORM index: rapid's integer generators are deliberately biased towards small values (about half
// of all draws from a range of 160 land below 16), which would silently distort the operation mix; fair coin flips
// are unbiased and still shrink towards index 0.
func (g *Gen) pick(label string, n int) int {
	if n <= 1 {
		return 0
	}
	bits := 0
	for (1 << uint(bits)) < n {
		bits++
	}
	v := 0
	for i := 0; i < bits+2; i++ { // two extra bits keep the modulo bias below 1/4 of a step
		if rapid.Bool().Draw(g.t, label) {
			v |= 1 << uint(i)
		}
	}
	return v % n
}

func pickFrom[T any](g *Gen, label string, xs []T) T { return xs[g.pick(label, len(xs))] }

func (g *Gen) addr(label string) []byte { return g.holders[g.pick(label, len(g.holders))] }

func (g *Gen) shard(a []byte) int { return int(g.e.M.shardOf(a)) }

func (g *Gen) tokenOfKind(label string, kinds ...string) []byte {
	var ids []string
	for _, id := range g.e.M.sortedTokens() {
		for _, k := range kinds {
			if g.e.M.Tokens[id].Kind == k {
				ids = append(ids, id)
			}
		}
	}
	return []byte(ids[g.pick(label, len(ids))])
}

type holding struct {
	addr   []byte
	suffix string
	token  []byte
	nonce  uint64
	e      *Entry
}

// holdings lists positive holdings in deterministic order; filter: "F" fungible keys, "N" nonce keys, "" all.
func (g *Gen) holdings(filter string) []holding {
	var out []holding
	m := g.e.M
	for _, a := range g.holders {
		sh := g.shard(a)
		acc := m.Shards[sh].Accounts[string(a)]
		if acc == nil {
			continue
		}
		sfx := make([]string, 0, len(acc.Entries))
		for k := range acc.Entries {
			sfx = append(sfx, k)
		}
		sort.Strings(sfx)
		for _, k := range sfx {
			en := acc.Entries[k]
			if en.Value.Sign() <= 0 {
				continue
			}
			info, rest := m.tokenOfSuffix(k)
			if info == nil {
				continue
			}
			isN := rest != ""
			if (filter == "F" && isN) || (filter == "N" && !isN) {
				continue
			}
			out = append(out, holding{addr: a, suffix: k, token: []byte(info.ID), nonce: low64([]byte(rest)), e: en})
		}
	}
	return out
}

func (g *Gen) amount(label string, bal *big.Int) []byte {
	one := big.NewInt(1)
	switch pickFrom(g, label, []string{"one", "one", "one", "half", "half", "all", "all", "all", "all", "all-1", "all-1", "all+1", "zero", "2^64", "100bytes", "leading-zero"}) {
	case "one":
		return []byte{1}
	case "half":
		h := new(big.Int).Rsh(bal, 1)
		if h.Sign() == 0 {
			return []byte{1}
		}
		return h.Bytes()
	case "all":
		if bal.Sign() == 0 {
			return []byte{1}
		}
		return bal.Bytes()
	case "all-1":
		if bal.Cmp(one) <= 0 {
			return []byte{1}
		}
		return new(big.Int).Sub(bal, one).Bytes()
	case "all+1":
		g.Shape = append(g.Shape, "amount=balance+1")
		return new(big.Int).Add(bal, one).Bytes()
	case "zero":
		g.Shape = append(g.Shape, "amount=0")
		return pickFrom(g, label+"z", [][]byte{{}, {0}})
	case "2^64":
		return new(big.Int).Lsh(one, 64).Bytes()
	case "100bytes":
		return bytes.Repeat([]byte{0x7f}, pickFrom(g, label+"len", []int{100, 101}))
	default:
		g.Shape = append(g.Shape, "leading-zero-number")
		return append([]byte{0, 0}, []byte{1}...)
	}
}

func (g *Gen) issueAmount(label string) []byte {
	return pickFrom(g, label, [][]byte{{1}, {2}, {100}, {1, 0, 0}, new(big.Int).Add(new(big.Int).Lsh(big.NewInt(1), 64), big.NewInt(5)).Bytes(), new(big.Int).Lsh(big.NewInt(1), 200).Bytes(),
		new(big.Int).Lsh(big.NewInt(1), 64).Bytes(), new(big.Int).Lsh(big.NewInt(1), 128).Bytes(), bytes.Repeat([]byte{0xff}, 32), {255}, {1, 0}})
}

// dest picks a destination relative to the sender: any holder, biased to "other account".
// other returns a holder address that is certainly different from the given one.
func (g *Gen) other(label string, from []byte) []byte {
	d := g.dest(label, from)
	if !bytes.Equal(d, from) {
		return d
	}
	for _, h := range g.holders {
		if !bytes.Equal(h, from) {
			return h
		}
	}
	return d
}

func (g *Gen) isHolder(a []byte) bool {
	for _, h := range g.holders {
		if bytes.Equal(h, a) {
			return true
		}
	}
	return false
}

func (g *Gen) dest(label string, from []byte) []byte {
	for i := 0; i < 3; i++ {
		d := g.addr(label)
		if !bytes.Equal(d, from) {
			return d
		}
	}
	return g.addr(label)
}

func (g *Gen) attachedCall(label string, dest []byte) [][]byte {
	k := g.pick(label, 6)
	if k < 3 {
		return nil
	}
	// a function name is whatever bytes the user put there (non-empty, no '@'): padding and control characters included
	fn := pickFrom(g, label+"fn", [][]byte{[]byte("accept"), []byte("f"), []byte("doSomething_1"), []byte("accept"), []byte("f"), []byte("claim "), []byte(" f"), []byte("a b"), []byte("f\n"), []byte("\tx"), {0xff, 0xfe}, []byte("ESDTTransfer")})
	out := [][]byte{fn}
	n := g.pick(label+"n", 4)
	for i := 0; i < n; i++ {
		out = append(out, pickFrom(g, label+"arg", [][]byte{{}, {0}, {1, 2, 3}, []byte("arg"), {0, 0, 7}}))
	}
	g.Shape = append(g.Shape, "attached-call")
	return out
}

func (g *Gen) callType(label string, caller []byte) int {
	if !refIsSC(caller) {
		return 0
	}
	return pickFrom(g, label, []int{0, 0, 0, 1, 2, 3})
}

func hbs(a ...[]byte) []HB {
	out := make([]HB, len(a))
	for i := range a {
		out[i] = a[i]
	}
	return out
}

const ampleGas = 1 << 40

// gasFor chooses the gas once the call is otherwise complete.
func (g *Gen) gasFor(c *Call) {
	c.Gas = ampleGas
	v := g.e.M.Judge(c)
	charge := uint64(1000)
	if v.Charge != nil {
		charge = *v.Charge
	}
	choices := []string{"ample", "ample", "ample", "ample", "ample", "ample", "exact", "plus1", "minus1", "zero", "max", "double"}
	if g.GasBias == "tight" {
		choices = []string{"ample", "exact", "exact", "plus1", "minus1", "minus1", "zero", "max", "double", "one", "2^32", "2^63"}
	}
	switch k := pickFrom(g, "gas", choices); k {
	case "exact":
		c.Gas = charge
	case "plus1":
		c.Gas = charge + 1
	case "minus1":
		if charge > 0 {
			c.Gas = charge - 1
		}
		g.Shape = append(g.Shape, "gas=charge-1")
	case "zero":
		c.Gas = 0
		g.Shape = append(g.Shape, "gas=0")
	case "one":
		c.Gas = 1
	case "max":
		c.Gas = ^uint64(0)
	case "double":
		c.Gas = 2 * charge
	case "2^32":
		c.Gas = 1 << 32
	case "2^63":
		c.Gas = 1 << 63
	}
	if refIsSC(c.Caller) {
		// what a contract's asynchronous call keeps aside for its callback: not part of GasProvided, any size
		c.GasLocked = pickFrom(g, "gaslocked", []uint64{0, 0, 17, charge + 1, 30_000_000, 1 << 32, 1 << 63, ^uint64(0)})
		if c.GasLocked > charge {
			g.Shape = append(g.Shape, "gaslocked>charge")
		}
	}
}

func (g *Gen) sysCall(shard int, fn string, rcv []byte, args ...[]byte) *Call {
	g.Layer = "sys"
	return &Call{Shard: shard, Fn: fn, Caller: cp(refESDTSC), Rcv: cp(rcv), Args: hbs(args...), Gas: pickFrom(g, "sysgas", []uint64{0, 50000})}
}

func (g *Gen) selfCall(fn string, caller []byte, args ...[]byte) *Call {
	c := &Call{Shard: g.shard(caller), Fn: fn, Caller: cp(caller), Rcv: cp(caller), Args: hbs(args...)}
	c.CallType = g.callType("calltype", caller)
	g.gasFor(c)
	return c
}

// createRoleHolder finds who holds (or is about to receive) the create role of a token.
func (g *Gen) createRoleBusy(token []byte) ([]byte, bool) {
	m := g.e.M
	for _, a := range g.holders {
		if acc := m.Shards[g.shard(a)].Accounts[string(a)]; acc != nil && acc.hasRole(token, refESDTRoleNFTCreate) {
			return a, true
		}
	}
	for _, msg := range m.Msgs {
		if !msg.Done && msg.Kind == "handover" && bytes.Equal(msg.Token, token) {
			return nil, true
		}
	}
	return nil, false
}

// ensureRole is the prerequisite step "some account gets `role`": a disciplined system-contract ESDTSetRole.
func (g *Gen) ensureRole(role string) Op {
	m := g.e.M
	fung := role == refESDTRoleLocalMint || role == refESDTRoleLocalBurn
	var toks []string
	for _, id := range m.sortedTokens() {
		if (m.Tokens[id].Kind == "F") != fung {
			continue
		}
		if role == refESDTRoleNFTCreate {
			if _, busy := g.createRoleBusy([]byte(id)); busy || m.Issued[id] > 0 {
				continue
			}
		}
		toks = append(toks, id)
	}
	if len(toks) == 0 {
		return g.byKind("issue")
	}
	token := []byte(toks[g.pick("er-token", len(toks))])
	rcv := g.addr("er-rcv")
	acc := m.acc(g.shard(rcv), rcv)
	if acc.hasRole(token, role) {
		return g.byKind("issue")
	}
	roles := [][]byte{[]byte(role)}
	for _, r := range allRoles {
		rf := r == refESDTRoleLocalMint || r == refESDTRoleLocalBurn
		if r == role || rf != fung || r == refESDTRoleNFTCreate || acc.hasRole(token, r) {
			continue
		}
		if g.pick("er-more", 3) > 0 {
			roles = append(roles, []byte(r))
		}
	}
	return callOp(g.sysCall(g.shard(rcv), refBuiltInFunctionSetESDTRole, rcv, append([][]byte{token}, roles...)...))
}

// Next draws the next operation.
func (g *Gen) Next() Op {
	g.Shape = g.Shape[:0]
	g.Layer = "G1"
	kind := g.kinds[g.pick("kind", len(g.kinds))]
	op := g.byKind(kind)
	op.Note = kind
	return op
}

func callOp(c *Call) Op { return Op{Kind: "call", Call: c} }

func (g *Gen) byKind(kind string) Op {
	m := g.e.M
	switch kind {
	case "issue":
		rcv := g.addr("issue-rcv")
		return callOp(g.sysCall(g.shard(rcv), refBuiltInFunctionESDTTransfer, rcv, g.tokenOfKind("issue-token", "F"), g.issueAmount("issue-amount")))
	case "setrole":
		rcv := g.addr("role-rcv")
		token := g.tokenOfKind("role-token", "F", "SFT", "NFT")
		acc := m.acc(g.shard(rcv), rcv)
		var cand [][]byte
		_, busy := g.createRoleBusy(token)
		kindOf := m.Tokens[string(token)].Kind
		for _, r := range allRoles {
			if acc.hasRole(token, r) {
				continue // N6: never set twice
			}
			if r == refESDTRoleNFTCreate && (busy || kindOf == "F" || m.Issued[string(token)] > 0) {
				continue // N6: one create-role holder; once given it moves only by hand-over
			}
			// N6: the system contract grants a role only to a token kind it applies to
			isFungibleRole := r == refESDTRoleLocalMint || r == refESDTRoleLocalBurn
			if (kindOf == "F") != isFungibleRole {
				continue
			}
			cand = append(cand, []byte(r))
		}
		if len(cand) == 0 {
			return g.byKind("issue")
		}
		// usually a generous subset so that role holders exist; sometimes exactly one
		var roles [][]byte
		if rapid.Bool().Draw(g.t, "allroles") {
			roles = cand
		} else {
			roles = [][]byte{cand[g.pick("role", len(cand))]}
		}
		return callOp(g.sysCall(g.shard(rcv), refBuiltInFunctionSetESDTRole, rcv, append([][]byte{token}, roles...)...))
	case "setrole-repeat":
		// NOT what the disciplined system contract sends (N6): a role message that names a role twice and / or a role the
		// account already holds. Used where a statement quantifies over every call (determinism, C13): the result - the
		// stored list included - has to be the same every time whatever the library decides to do with the repetition.
		rcv := g.addr("rr-rcv")
		token := g.tokenOfKind("rr-token", "SFT", "NFT")
		acc := m.acc(g.shard(rcv), rcv)
		_, busy := g.createRoleBusy(token)
		var roles [][]byte
		for _, r := range []string{refESDTRoleNFTBurn, refESDTRoleNFTAddQuantity, refESDTRoleNFTAddURI, refESDTRoleNFTUpdateAttributes, refESDTRoleNFTCreate} {
			if r == refESDTRoleNFTCreate && ((busy && !acc.hasRole(token, r)) || m.Issued[string(token)] > 0) {
				continue
			}
			if g.pick("rr-take", 3) > 0 {
				roles = append(roles, []byte(r))
			}
		}
		if len(roles) == 0 {
			roles = append(roles, []byte(refESDTRoleNFTBurn))
		}
		roles = append(roles, roles[g.pick("rr-dup", len(roles))])
		if g.pick("rr-front", 2) == 0 {
			roles[0], roles[len(roles)-1] = roles[len(roles)-1], roles[0]
		}
		g.Shape = append(g.Shape, "setrole-repeated-role")
		return callOp(g.sysCall(g.shard(rcv), refBuiltInFunctionSetESDTRole, rcv, append([][]byte{token}, roles...)...))
	case "unsetrole":
		var cands [][2][]byte
		for _, a := range g.holders {
			acc := m.acc(g.shard(a), a)
			for _, tok := range m.sortedTokens() {
				if len(acc.Roles[tok]) > 0 {
					cands = append(cands, [2][]byte{a, []byte(tok)})
				}
			}
		}
		if len(cands) == 0 {
			return g.byKind("setrole")
		}
		p := cands[g.pick("unset-pick", len(cands))]
		var roles [][]byte
		for _, r := range m.acc(g.shard(p[0]), p[0]).Roles[string(p[1])] {
			if r != refESDTRoleNFTCreate { // the protocol never unsets the create role
				roles = append(roles, []byte(r))
			}
		}
		if len(roles) == 0 {
			return g.byKind("setrole")
		}
		// 1..3 roles in any order; the list may also name roles the account does not hold (those are skipped), but never
		// the create role
		n := 1 + g.pick("unset-n", 3)
		list := [][]byte{}
		for i := 0; i < n; i++ {
			if g.pick("unset-held", 3) > 0 {
				list = append(list, roles[g.pick("unset-role", len(roles))])
			} else {
				r := allRoles[g.pick("unset-any", len(allRoles))]
				if r != refESDTRoleNFTCreate {
					list = append(list, []byte(r))
				}
			}
		}
		if len(list) == 0 {
			list = [][]byte{roles[0]}
		}
		return callOp(g.sysCall(g.shard(p[0]), refBuiltInFunctionUnSetESDTRole, p[0], append([][]byte{p[1]}, list...)...))
	case "transfer":
		if len(g.holdings("F")) == 0 && g.pick("pre-tr", 8) > 0 {
			return g.byKind("issue")
		}
		return callOp(g.genTransfer())
	case "nfttransfer":
		if len(g.holdings("N")) == 0 && g.pick("pre-nt", 8) > 0 {
			return g.byKind("create")
		}
		return callOp(g.genNFTTransfer())
	case "multi":
		if len(g.holdings("")) == 0 && g.pick("pre-mu", 8) > 0 {
			return g.byKind("issue")
		}
		return callOp(g.genMulti())
	case "mint":
		if len(g.roleHolders(refESDTRoleLocalMint)) == 0 && g.pick("pre-mint", 4) > 0 {
			return g.ensureRole(refESDTRoleLocalMint)
		}
		return callOp(g.genMintBurn(kind))
	case "localburn":
		if len(g.roleHolders(refESDTRoleLocalBurn)) == 0 && g.pick("pre-lb", 4) > 0 {
			return g.ensureRole(refESDTRoleLocalBurn)
		}
		return callOp(g.genMintBurn(kind))
	case "burn":
		if len(g.holdings("F")) == 0 && g.pick("pre-bu", 8) > 0 {
			return g.byKind("issue")
		}
		return callOp(g.genMintBurn(kind))
	case "create":
		if len(g.roleHolders(refESDTRoleNFTCreate)) == 0 && g.pick("pre-cr", 8) > 0 {
			return g.ensureRole(refESDTRoleNFTCreate)
		}
		return callOp(g.genCreate())
	case "addq", "nftburn", "adduri", "update":
		if len(g.holdings("N")) == 0 && g.pick("pre-own", 8) > 0 {
			return g.byKind("create")
		}
		return callOp(g.genOwnNFT(kind))
	case "freeze", "unfreeze", "wipe":
		fn := map[string]string{"freeze": refBuiltInFunctionESDTFreeze, "unfreeze": refBuiltInFunctionESDTUnFreeze, "wipe": refBuiltInFunctionESDTWipe}[kind]
		rcv := g.addr("freeze-rcv")
		token := g.tokenOfKind("freeze-token", "F", "F", "F", "SFT")
		if kind != "freeze" {
			// prefer a frozen entry
			var fr [][2][]byte
			for _, a := range g.holders {
				for sfx, en := range m.acc(g.shard(a), a).Entries {
					if en.Frozen {
						fr = append(fr, [2][]byte{a, []byte(sfx)})
					}
				}
			}
			sort.Slice(fr, func(i, j int) bool { return string(fr[i][0])+string(fr[i][1]) < string(fr[j][0])+string(fr[j][1]) })
			if len(fr) > 0 && g.pick("pick-frozen", 5) > 0 {
				p := fr[g.pick("frozen-pick", len(fr))]
				rcv, token = p[0], p[1]
			}
		} else if hs := g.holdings("F"); len(hs) > 0 && rapid.Bool().Draw(g.t, "freeze-holder") {
			h := hs[g.pick("freeze-h", len(hs))]
			rcv, token = h.addr, h.token
		}
		if hs := g.holdings("N"); kind == "freeze" && len(hs) > 0 && g.pick("freeze-single-nft", 3) == 0 {
			// the system contract's freezeSingleNFT (wipeSingleNFT follows through the frozen entry): identifier and
			// nonce composed into ONE argument
			h := hs[g.pick("freeze-nft-h", len(hs))]
			rcv, token = h.addr, []byte(h.suffix)
			g.Shape = append(g.Shape, "freeze-composed-key")
		}
		if kind == "freeze" && g.pick("freeze-nft-in-flight", 4) == 0 {
			// the system contract does not know where an NFT is: freezeSingleNFT may reach the account that sent it away
			// (the refund target) or the one it is travelling to, while neither holds it - the flag then lives in a
			// zero-value entry without metadata until the tokens (or their refund) arrive
			var cands [][2][]byte
			for _, msg := range m.pendingMsgs() {
				if msg.Kind != "transfer" {
					continue
				}
				for _, it := range msg.Items {
					if it.Nonce == 0 {
						continue
					}
					for _, a := range [][]byte{msg.Sender, msg.Rcv} {
						if g.isHolder(a) {
							cands = append(cands, [2][]byte{a, []byte(it.Suffix)})
						}
					}
				}
			}
			if len(cands) > 0 {
				p := cands[g.pick("freeze-in-flight-pick", len(cands))]
				rcv, token = p[0], p[1]
				g.Shape = append(g.Shape, "freeze-nft-in-flight")
			}
		}
		return callOp(g.sysCall(g.shard(rcv), fn, rcv, token))
	case "pause", "unpause":
		fn := refBuiltInFunctionESDTPause
		if kind == "unpause" {
			fn = refBuiltInFunctionESDTUnPause
		}
		sh := g.pick("pause-shard", m.NShards)
		// the metachain broadcasts a global setting to every shard by addressing the system account with its last
		// byte replaced by the shard id (that is why the classifier compares 30 bytes only)
		rcv := cp(refSystemAccount)
		switch g.pick("pause-rcv", 4) {
		case 1, 2:
			rcv[31] = byte(sh)
		case 3:
			rcv[30], rcv[31] = byte(g.pick("pause-rcv-30", 256)), byte(g.pick("pause-rcv-31", 256))
		}
		g.Shape = append(g.Shape, sprintf("pause-rcv-canonical=%v", bytes.Equal(rcv, refSystemAccount)))
		return callOp(g.sysCall(sh, fn, rcv, g.tokenOfKind("pause-token", "F", "SFT", "NFT")))
	case "handover":
		var cands [][2][]byte
		for _, tok := range m.sortedTokens() {
			if a, ok := g.createRoleBusy([]byte(tok)); ok && a != nil {
				cands = append(cands, [2][]byte{a, []byte(tok)})
			}
		}
		if len(cands) == 0 {
			return g.byKind("setrole")
		}
		p := cands[g.pick("handover-pick", len(cands))]
		// the system contract refuses a hand-over whose new owner is the current one (N6)
		next := g.other("handover-next", p[0])
		g.Shape = append(g.Shape, "handover")
		return callOp(g.sysCall(g.shard(p[0]), refBuiltInFunctionESDTNFTCreateRoleTransfer, p[0], p[1], next))
	case "seedhandover":
		if m.NShards < 2 {
			return g.byKind("setrole")
		}
		var free [][]byte
		for _, tok := range m.sortedTokens() {
			if _, busy := g.createRoleBusy([]byte(tok)); !busy && m.Tokens[tok].Kind != "F" && m.Issued[tok] == 0 {
				free = append(free, []byte(tok))
			}
		}
		if len(free) == 0 {
			return g.byKind("create")
		}
		tok := free[g.pick("seed-token", len(free))]
		rcv := g.addr("seed-rcv")
		ext := bytes.Repeat([]byte{0x99}, 32)
		ext[31] = byte((g.shard(rcv) + 1) % m.NShards)
		// counters whose successors sit on byte-length boundaries, or contain a byte that means something elsewhere
		// ('-' 0x2d separates ticker and random part of an identifier, '@' 0x40 separates arguments)
		cnt := pickFrom(g, "seed-counter", []uint64{0, 1, 254, 255, 256, 65535, 1<<32 - 1, 1 << 32, 1 << 63, 0x012c, 0x2d2c, 0x013f, 0x2d00, 0x4000})
		g.Layer = "sys"
		return Op{Kind: "seed-handover", Call: &Call{Fn: refBuiltInFunctionESDTNFTCreateRoleTransfer, Caller: ext, Rcv: cp(rcv), Args: hbs(tok, beNonce(cnt))}}
	case "deliver":
		pend := m.pendingMsgs()
		if len(pend) == 0 {
			return g.byKind(pickFrom(g, "nodeliver", []string{"transfer", "nfttransfer", "multi", "create", "issue"}))
		}
		msg := pend[g.pick("msg", len(pend))]
		g.Layer = "sys"
		c := g.e.DeliveryCall(msg)
		if msg.Kind == "handover" {
			g.lastHandoverDelivered = msg.ID
		}
		return callOp(c)
	case "redeliver":
		// immediate re-delivery of the hand-over that was delivered by the previous operation (N6)
		if n := len(g.e.Ops); n > 0 && g.lastHandoverDelivered != 0 {
			last := g.e.Ops[n-1]
			if msg := m.msg(g.lastHandoverDelivered); last.Kind == "call" && last.Call.MsgID == g.lastHandoverDelivered && !last.Call.Redeliver && msg != nil && msg.Delivered == 1 {
				c := g.e.DeliveryCall(msg)
				c.Redeliver = true
				g.Layer = "sys"
				g.Shape = append(g.Shape, "handover-redelivered")
				return callOp(c)
			}
		}
		return g.byKind("deliver")
	case "changeowner":
		sc := g.e.Spec.Contracts[g.pick("co-sc", len(g.e.Spec.Contracts))].Addr
		owner := m.acc(g.shard(sc), sc).Owner
		caller := owner
		if len(caller) != 32 || int(m.shardOf(caller)) >= m.NShards || g.pick("co-other", 4) == 0 {
			caller = g.addr("co-caller")
		}
		c := &Call{Shard: g.shard(caller), Fn: refBuiltInFunctionChangeOwnerAddress, Caller: cp(caller), Rcv: cp(sc), Args: hbs(g.addr("co-new"))}
		g.gasFor(c)
		return callOp(c)
	case "claim":
		sc := g.e.Spec.Contracts[g.pick("cl-sc", len(g.e.Spec.Contracts))].Addr
		caller := m.acc(g.shard(sc), sc).Owner
		if len(caller) != 32 || int(m.shardOf(caller)) >= m.NShards || g.pick("cl-other", 4) == 0 {
			caller = g.addr("cl-caller")
		}
		c := &Call{Shard: g.shard(caller), Fn: refBuiltInFunctionClaimDeveloperRewards, Caller: cp(caller), Rcv: cp(sc)}
		c.CallType = g.callType("cl-type", caller)
		g.gasFor(c)
		return callOp(c)
	case "setusername":
		caller := []byte(g.e.Spec.DNS[0])
		if g.pick("un-other", 4) == 0 {
			caller = g.addr("un-caller")
		}
		rcv := g.e.Spec.Users[g.pick("un-rcv", len(g.e.Spec.Users))]
		c := &Call{Shard: g.shard(caller), Fn: refBuiltInFunctionSetUserName, Caller: cp(caller), Rcv: cp(rcv), Args: hbs(pickFrom(g, "un-name", [][]byte{[]byte("alice.elrond"), []byte("b"), bytes.Repeat([]byte("n"), 40)}))}
		g.gasFor(c)
		return callOp(c)
	case "skv":
		return callOp(g.genSKV())
	case "plant":
		hs := g.holdings("N")
		if len(hs) == 0 {
			return g.byKind("create")
		}
		h := hs[g.pick("pl-h", len(hs))]
		var free [][]byte
		for _, a := range g.holders {
			if m.acc(g.shard(a), a).bal(h.suffix).Sign() == 0 {
				free = append(free, a)
			}
		}
		if len(free) == 0 {
			return g.byKind("nfttransfer")
		}
		g.Layer = "env"
		return Op{Kind: "plant", Addr: free[g.pick("pl-a", len(free))], Token: h.token, Count: h.nonce, Mode: 1 + g.pick("pl-q", 3)}
	case "payable":
		a := g.addr("pay-addr")
		g.Layer = "env"
		return Op{Kind: "payable", Shard: g.shard(a), Addr: a, Mode: pickFrom(g, "pay-mode", []int{0, 1, 1, 2})}
	case "replace":
		g.Layer = "env"
		g.Shape = append(g.Shape, "container-entry-replaced")
		return Op{Kind: "replace", Shard: g.pick("replace-shard", m.NShards), Token: HB(pickFrom(g, "replace-fn", protocolFunctionNames))}
	case "gas":
		g.Layer = "env"
		return g.genGasOp()
	case "epoch":
		g.Layer = "env"
		cur := m.Shards[0].Epoch
		return Op{Kind: "epoch", Epoch: pickFrom(g, "epoch", []uint32{cur + 1, cur + 1, cur + 1, cur, 0, 1, 2, 3, 4, 1 << 31, 1<<32 - 1})}
	case "mutate":
		base := g.byKind(pickFrom(g, "mut-base", []string{"transfer", "nfttransfer", "multi", "multi", "mint", "localburn", "burn", "create", "addq", "nftburn", "adduri", "update", "skv", "changeowner", "claim", "setusername", "freeze", "pause", "setrole", "handover"}))
		if base.Kind != "call" || base.Call.MsgID != 0 {
			return base
		}
		g.mutate(base.Call)
		g.Layer = "G2"
		return base
	case "unstructured":
		g.Layer = "G3"
		return callOp(g.genUnstructured())
	}
	return g.byKind("issue")
}

func (g *Gen) genTransfer() *Call {
	hs := g.holdings("F")
	var from, token []byte
	bal := new(big.Int)
	if len(hs) > 0 {
		h := hs[g.pick("tr-h", len(hs))]
		from, token, bal = h.addr, h.token, h.e.Value
	} else {
		from, token = g.addr("tr-from"), g.tokenOfKind("tr-token", "F")
	}
	to := g.dest("tr-to", from)
	if g.pick("tr-self", 25) == 0 {
		to = from // the same account as sender and destination
		g.Shape = append(g.Shape, "to-self")
	}
	args := [][]byte{token, g.amount("tr-amount", bal)}
	args = append(args, g.attachedCall("tr-call", to)...)
	c := &Call{Shard: g.shard(from), Fn: refBuiltInFunctionESDTTransfer, Caller: cp(from), Rcv: cp(to), Args: hbs(args...)}
	c.CallType = g.callType("tr-type", from)
	g.gasFor(c)
	g.shapeOfDest(from, to, string(token))
	return c
}

func (g *Gen) shapeOfDest(from, to []byte, suffix string) {
	if len(to) != 32 || int(g.e.M.shardOf(to)) >= g.e.M.NShards {
		return
	}
	if g.shard(from) == g.shard(to) {
		g.Shape = append(g.Shape, "same-shard")
	} else {
		g.Shape = append(g.Shape, "cross-shard")
	}
	if g.e.M.acc(g.shard(to), to).bal(suffix).Sign() > 0 {
		g.Shape = append(g.Shape, "destination-holds")
	}
}

func (g *Gen) genNFTTransfer() *Call {
	hs := g.holdings("N")
	var from, token []byte
	nonce := uint64(1)
	bal := big.NewInt(1)
	if len(hs) > 0 {
		h := hs[g.pick("nt-h", len(hs))]
		from, token, nonce, bal = h.addr, h.token, h.nonce, h.e.Value
	} else {
		from, token = g.addr("nt-from"), g.tokenOfKind("nt-token", "SFT", "NFT")
	}
	to := g.dest("nt-to", from)
	nb := beNonce(nonce)
	if g.pick("nt-lz", 8) == 0 {
		nb = append([]byte{0}, nb...)
		g.Shape = append(g.Shape, "leading-zero-number")
	}
	args := [][]byte{token, nb, g.amount("nt-amount", bal), to}
	args = append(args, g.attachedCall("nt-call", to)...)
	c := &Call{Shard: g.shard(from), Fn: refBuiltInFunctionESDTNFTTransfer, Caller: cp(from), Rcv: cp(from), Args: hbs(args...)}
	c.CallType = g.callType("nt-type", from)
	g.gasFor(c)
	g.shapeOfDest(from, to, suffixOf(token, nonce))
	return c
}

func (g *Gen) genMulti() *Call {
	hs := g.holdings("")
	var from []byte
	if len(hs) > 0 {
		from = hs[g.pick("mu-h", len(hs))].addr
	} else {
		from = g.addr("mu-from")
	}
	var own []holding
	for _, h := range hs {
		if bytes.Equal(h.addr, from) {
			own = append(own, h)
		}
	}
	to := g.dest("mu-to", from)
	n := pickFrom(g, "mu-n", []int{1, 1, 2, 2, 3, 4, 1, 2, 3, 9})
	if g.pick("mu-many", 400) == 0 {
		n = 256 // a count that needs two bytes
	}
	args := [][]byte{to, big.NewInt(int64(n)).Bytes()}
	kinds := map[bool]int{}
	for i := 0; i < n; i++ {
		if len(own) == 0 {
			args = append(args, g.tokenOfKind("mu-token", "F", "SFT"), []byte{0}, []byte{1})
			continue
		}
		h := own[g.pick("mu-item", len(own))]
		kinds[h.nonce != 0]++
		var amt []byte
		if n > 4 || (n > 1 && rapid.Bool().Draw(g.t, "mu-small")) {
			amt = []byte{1}
		} else {
			amt = g.amount("mu-amount", h.e.Value)
		}
		nb := beNonce(h.nonce)
		if h.nonce == 0 {
			nb = pickFrom(g, "mu-zero-nonce", [][]byte{{}, {0}})
		}
		args = append(args, h.token, nb, amt)
		g.shapeOfDest(from, to, h.suffix)
	}
	args = append(args, g.attachedCall("mu-call", to)...)
	c := &Call{Shard: g.shard(from), Fn: refBuiltInFunctionMultiESDTNFTTransfer, Caller: cp(from), Rcv: cp(from), Args: hbs(args...)}
	c.CallType = g.callType("mu-type", from)
	g.gasFor(c)
	g.Shape = append(g.Shape, sprintf("multi-n=%d", n))
	if kinds[true] > 0 && kinds[false] > 0 {
		g.Shape = append(g.Shape, "multi-mixed")
	} else if kinds[false] > 0 {
		g.Shape = append(g.Shape, "multi-fungible")
	} else if kinds[true] > 0 {
		g.Shape = append(g.Shape, "multi-nft")
	}
	return c
}

// roleHolders lists (account, token) pairs holding a role.
func (g *Gen) roleHolders(role string, kinds ...string) [][2][]byte {
	var out [][2][]byte
	m := g.e.M
	for _, a := range g.holders {
		acc := m.Shards[g.shard(a)].Accounts[string(a)]
		if acc == nil {
			continue
		}
		for _, tok := range m.sortedTokens() {
			okKind := len(kinds) == 0
			for _, k := range kinds {
				if m.Tokens[tok].Kind == k {
					okKind = true
				}
			}
			if okKind && acc.hasRole([]byte(tok), role) {
				out = append(out, [2][]byte{a, []byte(tok)})
			}
		}
	}
	return out
}

func (g *Gen) genMintBurn(kind string) *Call {
	m := g.e.M
	switch kind {
	case "mint":
		rh := g.roleHolders(refESDTRoleLocalMint)
		var who, token []byte
		if len(rh) > 0 && g.pick("mint-auth", 6) > 0 {
			p := rh[g.pick("mint-pick", len(rh))]
			who, token = p[0], p[1]
		} else {
			who, token = g.addr("mint-who"), g.tokenOfKind("mint-token", "F")
		}
		return g.selfCall(refBuiltInFunctionESDTLocalMint, who, token, g.amount("mint-amount", m.acc(g.shard(who), who).bal(string(token))))
	case "localburn":
		rh := g.roleHolders(refESDTRoleLocalBurn)
		var who, token []byte
		if len(rh) > 0 && g.pick("lb-auth", 6) > 0 {
			p := rh[g.pick("lb-pick", len(rh))]
			who, token = p[0], p[1]
		} else if hs := g.holdings("F"); len(hs) > 0 {
			h := hs[g.pick("lb-h", len(hs))]
			who, token = h.addr, h.token
		} else {
			who, token = g.addr("lb-who"), g.tokenOfKind("lb-token", "F")
		}
		return g.selfCall(refBuiltInFunctionESDTLocalBurn, who, token, g.amount("lb-amount", m.acc(g.shard(who), who).bal(string(token))))
	default:
		var who, token []byte
		if hs := g.holdings("F"); len(hs) > 0 {
			h := hs[g.pick("bu-h", len(hs))]
			who, token = h.addr, h.token
		} else {
			who, token = g.addr("bu-who"), g.tokenOfKind("bu-token", "F")
		}
		c := &Call{Shard: g.shard(who), Fn: refBuiltInFunctionESDTBurn, Caller: cp(who), Rcv: cp(refESDTSC), Args: hbs(token, g.amount("bu-amount", m.acc(g.shard(who), who).bal(string(token))))}
		c.CallType = g.callType("bu-type", who)
		g.gasFor(c)
		return c
	}
}

func (g *Gen) field(label string) []byte {
	return pickFrom(g, label, [][]byte{{}, {7}, []byte("name"), bytes.Repeat([]byte{0xab}, 300), {0}})
}

func (g *Gen) genCreate() *Call {
	rh := g.roleHolders(refESDTRoleNFTCreate)
	var who, token []byte
	if len(rh) > 0 && g.pick("cr-auth", 7) > 0 {
		p := rh[g.pick("cr-pick", len(rh))]
		who, token = p[0], p[1]
	} else {
		who, token = g.addr("cr-who"), g.tokenOfKind("cr-token", "SFT", "NFT")
	}
	qty := pickFrom(g, "cr-qty", [][]byte{{1}, {1}, {2}, {100}, {1, 0, 0, 0, 0, 0, 0, 0, 0}, {}})
	roy := pickFrom(g, "cr-royalties", [][]byte{{}, {1}, {0x27, 0x0f}, {0x27, 0x10}, {0x27, 0x10}, {0x27, 0x11}, {1, 0, 0, 0, 1}, {1, 0, 0, 0, 0, 0, 0, 0x27, 0x10}})
	args := [][]byte{token, qty, g.field("cr-name"), roy, g.field("cr-hash"), g.field("cr-attrs")}
	nuris := 1 + g.pick("cr-nuris", 3)
	for i := 0; i < nuris; i++ {
		args = append(args, g.field("cr-uri"))
	}
	return g.selfCall(refBuiltInFunctionESDTNFTCreate, who, args...)
}

func (g *Gen) genOwnNFT(kind string) *Call {
	role := map[string]string{"addq": refESDTRoleNFTAddQuantity, "nftburn": refESDTRoleNFTBurn, "adduri": refESDTRoleNFTAddURI, "update": refESDTRoleNFTUpdateAttributes}[kind]
	fn := map[string]string{"addq": refBuiltInFunctionESDTNFTAddQuantity, "nftburn": refBuiltInFunctionESDTNFTBurn, "adduri": refBuiltInFunctionESDTNFTAddURI, "update": refBuiltInFunctionESDTNFTUpdateAttributes}[kind]
	hs := g.holdings("N")
	// prefer a holding whose holder has the role
	var good []holding
	for _, h := range hs {
		if g.e.M.acc(g.shard(h.addr), h.addr).hasRole(h.token, role) {
			good = append(good, h)
		}
	}
	var who, token []byte
	nonce := uint64(1)
	bal := big.NewInt(1)
	switch {
	case len(good) > 0 && g.pick("own-auth", 7) > 0:
		h := good[g.pick("own-good", len(good))]
		who, token, nonce, bal = h.addr, h.token, h.nonce, h.e.Value
	case len(hs) > 0:
		h := hs[g.pick("own-any", len(hs))]
		who, token, nonce, bal = h.addr, h.token, h.nonce, h.e.Value
	default:
		who, token = g.addr("own-who"), g.tokenOfKind("own-token", "SFT", "NFT")
	}
	var rest [][]byte
	switch kind {
	case "addq", "nftburn":
		rest = [][]byte{g.amount("own-amount", bal)}
	case "adduri":
		n := 1 + g.pick("own-nuris", 3)
		for i := 0; i < n; i++ {
			rest = append(rest, g.field("own-uri"))
		}
	default:
		rest = [][]byte{g.field("own-attrs")}
	}
	nb := beNonce(nonce)
	switch g.pick("own-nonce-form", 24) {
	case 0:
		nb = append([]byte{0}, nb...)
	case 1:
		nb = append([]byte{1}, leftPad8(nb)...) // 9 bytes, low 64 bits = the nonce
		g.Shape = append(g.Shape, "nine-byte-number")
	case 2:
		nb = []byte{1, 0, 0, 0, 0, 0, 0, 0, 0} // 2^64: non-zero, low 64 bits zero
		g.Shape = append(g.Shape, "nine-byte-number")
	}
	return g.selfCall(fn, who, append([][]byte{token, nb}, rest...)...)
}

func (g *Gen) genSKV() *Call {
	who := g.addr("skv-who")
	m := g.e.M
	acc := m.acc(g.shard(who), who)
	var live [][]byte
	for _, k := range sortedKeys(acc.KV) {
		live = append(live, []byte(k))
	}
	for sfx := range acc.Entries {
		live = append(live, []byte(pfxESDT+sfx))
	}
	for tok := range acc.Roles {
		live = append(live, []byte(pfxRole+tok))
	}
	for tok := range acc.Counter {
		live = append(live, []byte(pfxNonce+tok))
	}
	sort.Slice(live, func(i, j int) bool { return string(live[i]) < string(live[j]) })
	key := func(label string) []byte {
		switch g.pick(label, 10) {
		case 0:
			p := "ELROND"
			return []byte(p[:g.pick(label+"plen", 7)])
		case 1:
			g.Shape = append(g.Shape, "protected-key")
			return append([]byte("ELROND"), rapid.SliceOfN(rapid.Byte(), 0, 6).Draw(g.t, label+"ptail")...)
		case 2:
			return pickFrom(g, label+"variant", [][]byte{[]byte("elrondkey"), []byte("ELROnDkey"), []byte("XELRONDkey"), []byte("ELRON"), []byte("ELRONDesdtFNG-a1b2c3"), {}})
		case 3, 4:
			if len(live) > 0 {
				k := live[g.pick(label+"live", len(live))]
				if bytes.HasPrefix(k, []byte("ELROND")) {
					g.Shape = append(g.Shape, "protected-key")
				}
				return k
			}
			return []byte("k1")
		case 5:
			return rapid.SliceOfN(rapid.Byte(), 1, 64).Draw(g.t, label+"rnd")
		default:
			return pickFrom(g, label+"small", [][]byte{[]byte("k1"), []byte("k2"), []byte("key-three")})
		}
	}
	npairs := 1 + g.pick("skv-npairs", 4)
	var args [][]byte
	for i := 0; i < npairs; i++ {
		k := key("skv-key")
		var val []byte
		switch g.pick("skv-valkind", 5) {
		case 0:
			val = []byte{}
		case 1:
			val = cp(acc.KV[string(k)])
			if val == nil {
				val = []byte{}
			}
			g.Shape = append(g.Shape, "unchanged-value")
		case 2:
			val = []byte("v")
		case 3:
			val = bytes.Repeat([]byte("w"), 40)
		default:
			val = rapid.SliceOfN(rapid.Byte(), 0, 12).Draw(g.t, "skv-val")
		}
		args = append(args, k, val)
	}
	if g.pick("skv-odd", 12) == 0 {
		args = args[:len(args)-1]
	}
	c := &Call{Shard: g.shard(who), Fn: refBuiltInFunctionSaveKeyValue, Caller: cp(who), Rcv: cp(who), Args: hbs(args...)}
	if g.pick("skv-other", 10) == 0 {
		c.Rcv = cp(g.dest("skv-rcv", who))
	}
	g.gasFor(c)
	return c
}

func (g *Gen) genGasOp() Op {
	sh := g.pick("gas-shard", g.e.M.NShards)
	vals := make([]uint64, 22)
	base := pickFrom(g, "gas-base", []uint64{1, 2, 7, 1000, 1 << 20})
	perm := rapid.Permutation([]uint64{3, 5, 7, 11, 13, 17, 19, 23, 29, 31, 37, 41, 43, 47, 53, 59, 61, 67, 71, 73, 79, 83}).Draw(g.t, "gas-perm")
	for i := range vals {
		vals[i] = perm[i] * base
	}
	gm := GasMapFrom(vals)
	// sometimes only ONE of the two sections differs from the schedule in force (or nothing at all)
	cur := g.e.M.Shards[sh].Gas
	switch g.pick("gas-sections", 6) {
	case 0: // only the per-byte section changes
		for _, n := range builtInCostNames {
			gm[refBuiltInCostSection][n] = cur[n]
		}
	case 1: // only the built-in section changes
		for _, n := range baseCostNames {
			gm[refBaseOperationCostSection][n] = cur[n]
		}
	case 2: // identical schedule
		for _, n := range builtInCostNames {
			gm[refBuiltInCostSection][n] = cur[n]
		}
		for _, n := range baseCostNames {
			gm[refBaseOperationCostSection][n] = cur[n]
		}
	}
	switch g.pick("gas-valid", 4) {
	case 0: // invalid: one entry zeroed
		i := g.pick("gas-zero", 22)
		if i < 6 {
			gm[refBaseOperationCostSection][baseCostNames[i]] = 0
		} else {
			gm[refBuiltInCostSection][builtInCostNames[i-6]] = 0
		}
	case 1: // invalid: one entry missing
		i := g.pick("gas-missing", 22)
		if i < 6 {
			delete(gm[refBaseOperationCostSection], baseCostNames[i])
		} else {
			delete(gm[refBuiltInCostSection], builtInCostNames[i-6])
		}
	}
	// the node's schedule files do not spell every key like the library's struct fields (ESDTNFTAddUri): the factory
	// matches keys case-insensitively, so a re-cased key is the same entry
	if g.pick("gas-recase", 5) == 0 {
		i := g.pick("gas-recase-which", 22)
		sect, name := refBaseOperationCostSection, ""
		if i < 6 {
			name = baseCostNames[i]
		} else {
			sect, name = refBuiltInCostSection, builtInCostNames[i-6]
		}
		if v, ok := gm[sect][name]; ok {
			var re string
			switch g.pick("gas-recase-how", 3) {
			case 0:
				re = strings.ToLower(name)
			case 1:
				re = strings.ToUpper(name)
			default:
				re = name[:len(name)-1] + strings.ToLower(name[len(name)-1:])
				if re == name {
					re = name[:len(name)-1] + strings.ToUpper(name[len(name)-1:])
				}
			}
			if re != name {
				delete(gm[sect], name)
				gm[sect][re] = v
				g.Shape = append(g.Shape, "gas-key-recased")
			}
		}
	}
	return Op{Kind: "gas", Shard: sh, Gas: gm}
}
