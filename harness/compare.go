package harness

// World <-> model comparison (exactness of effects) and the well-formedness scan of C15.  Ledger entries are read
// with the independent reference decoder.

import (
	"bytes"
	"math/big"
	"sort"
	"strings"
)

type Mismatch struct {
	Class   string // balance | frozen | metadata | roles | counter | pause | kv | owner | username | reward | balance-field | undecodable | unknown-key
	Account []byte
	Key     string
	Msg     string
}

func isFrozenProps(p []byte) bool { return len(p) == 2 && p[0]&1 != 0 }

func sortedKeys(m map[string][]byte) []string {
	out := make([]string, 0, len(m))
	for k := range m {
		out = append(out, k)
	}
	sort.Strings(out)
	return out
}

// CompareShard lists every difference between the real ledger of a shard and the model's view of it.
func (m *Model) CompareShard(w *World, shard int) []Mismatch {
	var out []Mismatch
	s, ms := w.Shards[shard], m.Shards[shard]
	addrs := map[string]bool{}
	for k := range s.Accounts {
		addrs[k] = true
	}
	for k := range ms.Accounts {
		addrs[k] = true
	}
	list := make([]string, 0, len(addrs))
	for k := range addrs {
		list = append(list, k)
	}
	sort.Strings(list)
	for _, addr := range list {
		a := s.Accounts[addr]
		if a == nil {
			a = newAccount(s, []byte(addr))
		}
		ma := ms.Accounts[addr]
		if ma == nil {
			ma = newMAccount()
		}
		isSys := bytes.Equal([]byte(addr), refSystemAccount)
		seenEntries, seenRoles, seenCounters, seenKV, seenPause := map[string]bool{}, map[string]bool{}, map[string]bool{}, map[string]bool{}, map[string]bool{}
		for _, k := range sortedKeys(a.Storage) {
			val := a.Storage[k]
			switch {
			case strings.HasPrefix(k, pfxESDT) && isSys:
				tok := k[len(pfxESDT):]
				seenPause[tok] = true
				want, ok := ms.PauseFlag[tok]
				if len(val) != 2 {
					out = append(out, Mismatch{"undecodable", []byte(addr), k, sprintf("system-account entry for %q is %x, not a 2-byte flag", tok, val)})
				} else if want != (val[0]&1 != 0) {
					// (an entry that says "not paused" is the same as no entry: want is false when the model has none)
					_ = ok
					out = append(out, Mismatch{"pause", []byte(addr), k, sprintf("pause flag of %q is %x, model says present=%v paused=%v", tok, val, ok, want)})
				}
			case strings.HasPrefix(k, pfxESDT):
				sfx := k[len(pfxESDT):]
				seenEntries[sfx] = true
				t, err := RefDecodeToken(val)
				if err != nil || t.Value == nil {
					out = append(out, Mismatch{"undecodable", []byte(addr), k, sprintf("balance entry %x does not decode", val)})
					continue
				}
				e := ma.entry(sfx)
				if t.Value.Cmp(e.Value) != 0 {
					out = append(out, Mismatch{"balance", []byte(addr), k, sprintf("%s holds %v at key %q, expected %v", shortAddr([]byte(addr)), t.Value, sfx, e.Value)})
				}
				if isFrozenProps(t.Properties) != e.Frozen {
					out = append(out, Mismatch{"frozen", []byte(addr), k, sprintf("%s frozen flag at key %q is %v, expected %v", shortAddr([]byte(addr)), sfx, isFrozenProps(t.Properties), e.Frozen)})
				}
				if !t.Meta.Equal(e.Meta) {
					out = append(out, Mismatch{"metadata", []byte(addr), k, sprintf("%s metadata at key %q is %v, expected %v", shortAddr([]byte(addr)), sfx, t.Meta, e.Meta)})
				}
			case strings.HasPrefix(k, pfxRole):
				tok := k[len(pfxRole):]
				seenRoles[tok] = true
				roles, err := RefDecodeRoles(val)
				if err != nil {
					out = append(out, Mismatch{"undecodable", []byte(addr), k, sprintf("role list %x does not decode", val)})
					continue
				}
				got := make([]string, len(roles))
				for i, r := range roles {
					got[i] = string(r)
				}
				want := append([]string{}, ma.Roles[tok]...)
				g2 := append([]string{}, got...)
				sort.Strings(g2)
				sort.Strings(want)
				if strings.Join(g2, "\x00") != strings.Join(want, "\x00") {
					out = append(out, Mismatch{"roles", []byte(addr), k, sprintf("%s roles for %q are %v, expected %v", shortAddr([]byte(addr)), tok, got, ma.Roles[tok])})
				}
			case strings.HasPrefix(k, pfxNonce):
				tok := k[len(pfxNonce):]
				seenCounters[tok] = true
				if n := new(big.Int).SetBytes(val); !n.IsUint64() || n.Uint64() != ma.Counter[tok] {
					out = append(out, Mismatch{"counter", []byte(addr), k, sprintf("%s counter for %q is %v, expected %d", shortAddr([]byte(addr)), tok, n, ma.Counter[tok])})
				}
			case strings.HasPrefix(k, refProtectedPrefix):
				out = append(out, Mismatch{"unknown-key", []byte(addr), k, sprintf("protected key %q has none of the three protocol layouts", k)})
			default:
				seenKV[k] = true
				if !bytes.Equal(val, ma.KV[k]) {
					out = append(out, Mismatch{"kv", []byte(addr), k, sprintf("user key %q holds %x, expected %x", k, val, ma.KV[k])})
				}
			}
		}
		for sfx, e := range ma.Entries {
			if !seenEntries[sfx] {
				out = append(out, Mismatch{"balance", []byte(addr), pfxESDT + sfx, sprintf("%s has no entry at key %q, expected value %v frozen=%v", shortAddr([]byte(addr)), sfx, e.Value, e.Frozen)})
			}
		}
		for tok, r := range ma.Roles {
			if !seenRoles[tok] && len(r) > 0 {
				out = append(out, Mismatch{"roles", []byte(addr), pfxRole + tok, sprintf("%s has no role list for %q, expected %v", shortAddr([]byte(addr)), tok, r)})
			}
		}
		for tok, n := range ma.Counter {
			if !seenCounters[tok] && n != 0 {
				out = append(out, Mismatch{"counter", []byte(addr), pfxNonce + tok, sprintf("%s has no counter for %q, expected %d", shortAddr([]byte(addr)), tok, n)})
			}
		}
		for k, val := range ma.KV {
			if !seenKV[k] {
				out = append(out, Mismatch{"kv", []byte(addr), k, sprintf("user key %q is absent, expected %x", k, val)})
			}
		}
		if isSys {
			for tok, p := range ms.PauseFlag {
				if !seenPause[tok] && p {
					out = append(out, Mismatch{"pause", []byte(addr), pfxESDT + tok, sprintf("no pause entry for %q, model says paused=%v", tok, p)})
				}
			}
		}
		if !bytes.Equal(a.Owner, ma.Owner) {
			out = append(out, Mismatch{"owner", []byte(addr), "#owner", sprintf("owner of %s is %s, expected %s", shortAddr([]byte(addr)), shortAddr(a.Owner), shortAddr(ma.Owner))})
		}
		if !bytes.Equal(a.UserName, ma.UserName) {
			out = append(out, Mismatch{"username", []byte(addr), "#username", sprintf("user name of %s is %x, expected %x", shortAddr([]byte(addr)), a.UserName, ma.UserName)})
		}
		if a.Reward.Cmp(ma.Reward) != 0 {
			out = append(out, Mismatch{"reward", []byte(addr), "#reward", sprintf("developer reward of %s is %v, expected %v", shortAddr([]byte(addr)), a.Reward, ma.Reward)})
		}
		if a.Balance.Cmp(ma.Balance) != 0 {
			out = append(out, Mismatch{"balance-field", []byte(addr), "#balance", sprintf("balance of %s is %v, expected %v", shortAddr([]byte(addr)), a.Balance, ma.Balance)})
		}
	}
	return out
}

// WellFormed is the C15 scan of one shard: layouts, decodability, positivity, metadata/key agreement, duplicate roles,
// counter not below the highest nonce issued.
func (m *Model) WellFormed(w *World, shard int, diff []DiffEntry) []Clause {
	var out []Clause
	changed := map[string]bool{}
	for _, d := range diff {
		changed[d.Account+"\x00"+d.Key] = true
	}
	bad := func(sig, f string, a ...interface{}) {
		out = append(out, clause([]string{"C15"}, "wellformed/"+sig, f, a...))
	}
	s := w.Shards[shard]
	addrs := make([]string, 0, len(s.Accounts))
	for k := range s.Accounts {
		addrs = append(addrs, k)
	}
	sort.Strings(addrs)
	for _, addr := range addrs {
		a := s.Accounts[addr]
		isSys := bytes.Equal([]byte(addr), refSystemAccount)
		for _, k := range sortedKeys(a.Storage) {
			val := a.Storage[k]
			if !strings.HasPrefix(k, refProtectedPrefix) {
				continue
			}
			switch {
			case strings.HasPrefix(k, pfxESDT) && isSys:
				if len(val) != 2 {
					bad("pause-flag", "system-account key %q holds %x, not a 2-byte flag", k, val)
				}
			case strings.HasPrefix(k, pfxESDT):
				sfx := k[len(pfxESDT):]
				t, err := RefDecodeToken(val)
				if err != nil || t.Value == nil {
					bad("undecodable-entry", "%s key %q holds %x which does not decode as token data", shortAddr(a.Addr), k, val)
					continue
				}
				info, rest := m.tokenOfSuffix(sfx)
				if info == nil {
					bad("key-layout", "%s holds an entry under %q which is not ELRONDesdt+token+nonce of any issued token", shortAddr(a.Addr), k)
					continue
				}
				if t.Value.Sign() < 0 {
					out = append(out, clause([]string{"C15", "C02"}, "wellformed/negative-balance", "%s holds the negative balance %v at %q", shortAddr(a.Addr), t.Value, sfx))
				}
				if t.Value.Sign() == 0 && isFrozenProps(t.Properties) && rest != "" && t.Meta == nil && info.Kind != "F" {
					// the freeze flag of a single (token, nonce) at an account that holds none of it: the same carrier entry
					// as for a fungible token, but under an NFT key, where the statement allows neither a zero balance nor
					// an entry without metadata.  Reported once, by the call that wrote it (KNOWN_FINDINGS.txt).
					if changed[addr+"\x00"+k] {
						out = append(out, Clause{Props: []string{"C15"}, Sig: "wellformed/frozen-flag-carrier-under-nft-key", NoCut: true,
							Msg: sprintf("%s stores {value 0, frozen, no metadata} at the NFT key %q: a freeze of a single (token, nonce) reached an account that holds none of it", shortAddr(a.Addr), sfx)})
					}
					continue
				}
				if t.Value.Sign() == 0 && !(isFrozenProps(t.Properties) && rest == "" && t.Meta == nil) {
					bad("zero-balance-stored", "%s stores a zero balance at %q without a frozen flag", shortAddr(a.Addr), sfx)
				}
				if rest == "" {
					if t.Meta != nil {
						bad("fungible-with-metadata", "%s entry at nonce-less key %q carries metadata %v", shortAddr(a.Addr), sfx, t.Meta)
					}
					if info.Kind != "F" && t.Value.Sign() != 0 {
						bad("nft-balance-without-nonce", "%s holds %v of non-fungible token %q under the nonce-less key", shortAddr(a.Addr), t.Value, info.ID)
					}
				} else {
					if t.Meta == nil {
						bad("nft-without-metadata", "%s entry at %q has a nonce suffix but no metadata", shortAddr(a.Addr), sfx)
					} else if string(beNonce(t.Meta.Nonce)) != rest || t.Meta.Nonce == 0 {
						bad("metadata-nonce-mismatch", "%s entry at key suffix %x carries metadata nonce %d", shortAddr(a.Addr), rest, t.Meta.Nonce)
					}
					if info.Kind == "F" {
						bad("fungible-with-nonce", "%s holds fungible token %q under a nonce key %x", shortAddr(a.Addr), info.ID, rest)
					}
				}
			case strings.HasPrefix(k, pfxRole):
				roles, err := RefDecodeRoles(val)
				if err != nil {
					bad("undecodable-roles", "%s key %q holds %x which does not decode as a role list", shortAddr(a.Addr), k, val)
					continue
				}
				seen := map[string]bool{}
				for _, r := range roles {
					if seen[string(r)] {
						bad("duplicate-role", "%s holds role %q twice for %q", shortAddr(a.Addr), r, k[len(pfxRole):])
					}
					seen[string(r)] = true
				}
				tok := k[len(pfxRole):]
				if seen[refESDTRoleNFTCreate] {
					var counter uint64
					if cv, ok := a.Storage[pfxNonce+tok]; ok {
						counter = low64(cv)
					}
					if counter < m.Issued[tok] {
						bad("counter-below-issued", "%s holds the create role for %q with counter %d but nonce %d was already issued", shortAddr(a.Addr), tok, counter, m.Issued[tok])
					}
				}
			case strings.HasPrefix(k, pfxNonce):
				if n := new(big.Int).SetBytes(val); !n.IsUint64() || len(val) == 0 || val[0] == 0 {
					bad("counter-encoding", "%s counter key %q holds %x", shortAddr(a.Addr), k, val)
				}
			default:
				bad("key-layout", "%s has protected key %q with none of the three protocol layouts", shortAddr(a.Addr), k)
			}
		}
	}
	return out
}

// TotalAt sums a storage-level balance key over all accounts of all shards.
func (w *World) TotalAt(suffix string) *big.Int {
	total := new(big.Int)
	for _, s := range w.Shards {
		for addr, a := range s.Accounts {
			if bytes.Equal([]byte(addr), refSystemAccount) {
				continue
			}
			if v, ok := a.Storage[pfxESDT+suffix]; ok {
				if t, err := RefDecodeToken(v); err == nil && t.Value != nil {
					total.Add(total, t.Value)
				}
			}
		}
	}
	return total
}

// AllSuffixes lists every balance key present anywhere in the world.
func (w *World) AllSuffixes() []string {
	set := map[string]bool{}
	for _, s := range w.Shards {
		for addr, a := range s.Accounts {
			if bytes.Equal([]byte(addr), refSystemAccount) {
				continue
			}
			for k := range a.Storage {
				if strings.HasPrefix(k, pfxESDT) {
					set[k[len(pfxESDT):]] = true
				}
			}
		}
	}
	out := make([]string, 0, len(set))
	for k := range set {
		out = append(out, k)
	}
	sort.Strings(out)
	return out
}

// Conservation checks C01(c): for every storage-level key, ledger total + undelivered messages = model supply.
func (m *Model) Conservation(w *World) []Clause {
	var out []Clause
	inflight := map[string]*big.Int{}
	for _, msg := range m.Msgs {
		if msg.Done || msg.Kind != "transfer" {
			continue
		}
		for _, it := range msg.Items {
			if inflight[it.Suffix] == nil {
				inflight[it.Suffix] = new(big.Int)
			}
			inflight[it.Suffix].Add(inflight[it.Suffix], it.Qty)
		}
	}
	keys := map[string]bool{}
	for _, k := range w.AllSuffixes() {
		keys[k] = true
	}
	for k := range m.Supply {
		keys[k] = true
	}
	for k := range inflight {
		keys[k] = true
	}
	sorted := make([]string, 0, len(keys))
	for k := range keys {
		sorted = append(sorted, k)
	}
	sort.Strings(sorted)
	for _, k := range sorted {
		total := w.TotalAt(k)
		if inflight[k] != nil {
			total.Add(total, inflight[k])
		}
		want := m.Supply[k]
		if want == nil {
			want = new(big.Int)
		}
		if total.Cmp(want) != 0 {
			out = append(out, clause([]string{"C01", "C02"}, "conservation", "key %q: accounts + undelivered transfers = %v, supply (issued + minted - burnt - wiped) = %v", k, total, want))
		}
	}
	return out
}
