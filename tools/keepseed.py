#!/usr/bin/env python3
"""usage: keepseed.py <seed change dir> <property> <name> "<what it needs to manifest>" "<result line(s) of tools/evalseed.sh>"
Archives a confirmed seeded change under /verif/seeded/<property>-<name>/ (patch.diff, demo_test.go, README.md, meta.json)."""
import json, os, shutil, sys
src, prop, name, needs, result = sys.argv[1:6]
dst = "/verif/seeded/%s-%s" % (prop, name)
os.makedirs(dst, exist_ok=True)
for f in ("patch.diff", "demo_test.go", "README.md"):
    if os.path.exists(os.path.join(src, f)):
        shutil.copy(os.path.join(src, f), os.path.join(dst, f))
caught = [l.split()[0] for l in result.splitlines() if " rc=1 " in l]
missed = [l.split()[0] for l in result.splitlines() if " rc=0 " in l]
json.dump({
    "property": prop, "origin": "independent sub-agent given only the property text and a scratch worktree",
    "needs_to_manifest": needs,
    "confirmed_by": "tools/evalseed.sh in a scratch copy of /repo HEAD: demo test passes without the change and fails with it; the repository's unedited suite passes with it",
    "ran": "tools/evalseed.sh <dir> " + " ".join(caught + missed),
    "result": result.strip().splitlines(), "caught_by": caught, "missed_by": missed,
}, open(os.path.join(dst, "meta.json"), "w"), indent=1)
print("kept", dst, "caught_by", caught, "missed_by", missed)
