#!/usr/bin/env python3
"""Regenerate the table of DESIGN.md section 13.3 from seeded/*/meta.json (between the SEEDTABLE markers)."""
import glob, json, os, re, sys

ROOT = os.path.dirname(os.path.dirname(os.path.abspath(__file__)))


def rows():
    out = []
    for d in sorted(glob.glob(os.path.join(ROOT, "seeded", "C*"))):
        m = json.load(open(os.path.join(d, "meta.json")))
        needs = m.get("needs_to_manifest", "").replace("|", "/").replace("\n", " ")
        out.append("| %s | %s | %s | %s |" % (os.path.basename(d), needs, ", ".join(m.get("caught_by", [])) or "-",
                                             ", ".join(m.get("missed_by", [])) or "-"))
    return out


def main():
    p = os.path.join(ROOT, "DESIGN.md")
    s = open(p).read()
    r = rows()
    table = "<!-- SEEDTABLE-BEGIN -->\n| change | what it needs to manifest | caught by | also run, silent |\n|---|---|---|---|\n" + \
        "\n".join(r) + "\n<!-- SEEDTABLE-END -->"
    if "<!-- SEEDTABLE-BEGIN -->" in s:
        s = re.sub(r"<!-- SEEDTABLE-BEGIN -->.*?<!-- SEEDTABLE-END -->", lambda _: table, s, flags=re.S)
    else:
        # first use: replace the existing table that follows the 13.3 introduction
        s = re.sub(r"\| change \| what it needs to manifest \| caught by \| also run, silent \|\n\|---\|---\|---\|---\|\n(?:\|.*\n)+",
                   lambda _: table + "\n", s, count=1)
    open(p, "w").write(s)
    print(len(r), "rows")


if __name__ == "__main__":
    sys.exit(main())
