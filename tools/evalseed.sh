#!/bin/bash
# usage: tools/evalseed.sh <dir with patch.diff + demo_test.go> <property> [<property>...]
# Confirms a seeded change in a scratch copy of /repo (suite passes with it; demo passes without and fails with it),
# then runs the named quick checks against the changed copy.  Nothing is applied to /repo.
set -u
ROOT=$(cd "$(dirname "$(readlink -f "$0")")/.." && pwd)
export GOFLAGS=-mod=mod GOPROXY=off GOSUMDB=off GOTOOLCHAIN=local
SRC=$(readlink -f "$1"); shift
D=$(mktemp -d /var/tmp/seedeval.XXXXXX)
trap 'rm -rf "$D"' EXIT
(cd /repo && git archive HEAD) | tar -x -C "$D"
PKG=$(grep -m1 '^package ' "$SRC/demo_test.go" | awk '{print $2}' | sed 's/_test$//')
case "$PKG" in
  vmcommon) SUB=. ;; esdt) SUB=data/esdt ;; *) SUB=$(cd "$D" && find . -type d -name "$PKG" | head -1) ;;
esac
[ -z "$SUB" ] && SUB=.
cp "$SRC/demo_test.go" "$D/$SUB/zz_seed_demo_test.go"
RACE=""; grep -q -- "-race" "$SRC/demo_test.go" && RACE="-race"
demo() { (cd "$D/$SUB" && go test $RACE -vet=off -count=1 -run 'Test' . >/tmp/demo.$$.log 2>&1); echo $?; }
# run only the demo's tests
NAMES=$(grep -o '^func Test[A-Za-z0-9_]*' "$SRC/demo_test.go" | sed 's/func //' | paste -sd'|')
demo() { (cd "$D/$SUB" && go test $RACE -vet=off -count=1 -run "^($NAMES)\$" . >/tmp/demo.$$.log 2>&1); echo $?; }
R0=$(demo)
(cd "$D" && git init -q . >/dev/null 2>&1; git -C "$D" apply --unsafe-paths "$SRC/patch.diff" 2>/dev/null || patch -s -p1 -d "$D" < "$SRC/patch.diff") || { echo "PATCH-FAILED"; exit 3; }
R1=$(demo)
mv "$D/$SUB/zz_seed_demo_test.go" /tmp/zz.$$; 
SUITE=$(cd "$D" && go test -vet=off -count=1 ./... 2>&1 | grep -v "^ok\|no test files" | head -3)
echo "demo-without-change=$R0 (want 0)  demo-with-change=$R1 (want !=0)  suite-with-change=$([ -z "$SUITE" ] && echo pass || echo "FAIL: $SUITE")"
rm -f /tmp/zz.$$ /tmp/demo.$$.log
for P in "$@"; do
  OUT=$(cd "$ROOT" && VERIF_REPO="$D" ./check "$P" 2>&1); RC=$?
  echo "  $P rc=$RC $(echo "$OUT" | grep -m1 -A1 'VIOLATION\|OK property\|INCONCLUSIVE' | tr '\n' ' ' | cut -c1-300)"
done
