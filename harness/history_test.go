package harness

// Shared runner for the properties decided on generated histories over the world simulator.

import (
	"encoding/json"
	"strings"
	"testing"

	"pgregory.net/rapid"
)

type historyCfg struct {
	prop     string
	also     []string // violations tagged with these properties are also reported by this check (same root statement)
	weights  Weights
	minSteps int
	maxSteps int
	gasBias  string
	// nontrivial decides whether an executed call counts as a non-trivial case for this property, and gives its class key.
	nontrivial func(rec *CallRecord, g *Gen) (string, bool)
	// setup may install hooks on a fresh engine (e.g. the determinism triple execution).
	setup func(e *Engine, st *Stats)
	// templates are directed scenario prefixes that reach the labelled shapes by construction.
	templates []func(g *Gen, run func(Op) bool)
	templateP int // one history in templateP starts with a template (0 = never)
}

func hasProp(cl Clause, props []string) bool {
	for _, p := range cl.Props {
		for _, q := range props {
			if p == q {
				return true
			}
		}
	}
	return false
}

func outcomeOf(rec *CallRecord) string {
	switch {
	case rec.Res.Panic != nil:
		return "panic"
	case rec.Res.OK():
		return "ok"
	}
	return "err"
}

func renderCall(rec *CallRecord) map[string]interface{} {
	out := map[string]interface{}{"call": rec.Call.String(), "outcome": outcomeOf(rec), "side": rec.V.Side}
	if rec.Res.Err != nil {
		out["error"] = rec.Res.Err.Error()
	}
	if rec.Res.OK() {
		var diff []string
		for _, d := range rec.Res.Diff {
			diff = append(diff, sprintf("%s %q: %x -> %x", shortAddr([]byte(d.Account)), d.Key, d.Old, d.New))
		}
		out["diff"] = diff
		out["gas_remaining"] = rec.Res.Out.GasRemaining
	}
	return out
}

func runHistories(t *testing.T, cfg historyCfg) {
	st := NewStats(cfg.prop)
	defer finish(t, st)
	known := LoadKnown(cfg.prop)
	props := append([]string{cfg.prop}, cfg.also...)
	histories := 0

	rapid.Check(t, func(rt *rapid.T) {
		spec := GenSpec(rt)
		e := NewEngine(spec)
		if cfg.setup != nil {
			cfg.setup(e, st)
		}
		g := NewGen(rt, e, cfg.weights)
		g.GasBias = cfg.gasBias
		histories++
		st.AddExtra("histories", 1)
		cut := false

		// run executes one operation with bookkeeping; returns false when the history must stop
		run := func(op Op) bool {
			rec := e.Apply(op)
			if rec == nil {
				st.Label("op/" + op.Kind)
				return true
			}
			st.Eval(1)
			layer := g.Layer
			st.Label(sprintf("call/%s/%s/%s", rec.Call.Fn, rec.V.Side, outcomeOf(rec)))
			st.Label("layer/" + layer)
			if rec.Res.Err != nil && rec.Res.Panic == nil {
				msg := rec.Res.Err.Error()
				if len(msg) > 48 {
					msg = msg[:48]
				}
				st.Label("error/" + rec.Call.Fn + "/" + msg)
			}
			for _, s := range g.Shape {
				st.Label("shape/" + s + "/" + outcomeOf(rec))
			}
			for _, l := range rec.V.Labels {
				st.Label("model/" + l + "/" + outcomeOf(rec))
			}
			if cfg.nontrivial != nil {
				if key, ok := cfg.nontrivial(rec, g); ok {
					st.NT(key)
					st.Sample(strings.SplitN(key, "|", 2)[0], renderCall(rec))
				}
			}
			var mine, other []Clause
			for _, cl := range rec.Clauses {
				if hasProp(cl, props) {
					mine = append(mine, cl)
				} else {
					other = append(other, cl)
				}
			}
			for _, cl := range mine {
				if known[cl.Sig] {
					st.KnownHit(cl.Sig)
					st.AddExtra("excluded_known", 1)
					cut = true
					continue
				}
				failRapid(rt, st, cfg.prop, "history", Trace{Spec: spec, Ops: e.Ops}, cl.Sig, cl.Msg)
			}
			if len(other) > 0 {
				// another property's statement is broken here; the world no longer matches the model, so this history
				// stops (that property's own check reports it)
				st.AddExtra("cut_other_property", 1)
				st.Label("cut/" + other[0].Props[0] + "/" + other[0].Sig)
				cut = true
			}
			if rec.Lost {
				st.AddExtra("model_lost", 1)
				st.Label("model-lost/" + rec.Call.Fn)
				cut = true
			}
			return !cut
		}

		if cfg.templateP > 0 && len(cfg.templates) > 0 && rapid.IntRange(0, cfg.templateP-1).Draw(rt, "use-template") == 0 {
			tmpl := cfg.templates[rapid.IntRange(0, len(cfg.templates)-1).Draw(rt, "template")]
			st.AddExtra("templated_histories", 1)
			tmpl(g, run)
		}
		n := rapid.IntRange(cfg.minSteps, cfg.maxSteps).Draw(rt, "nsteps")
		for i := 0; i < n && !cut; i++ {
			if !run(g.Next()) {
				break
			}
		}
	})
}

// replayHistory interprets a saved trace with a plain loop and reports the first clause tagged with the property.
func replayHistory(props []string, setup func(e *Engine, st *Stats)) func(kind string, raw json.RawMessage) (string, string) {
	return func(kind string, raw json.RawMessage) (string, string) {
		if kind != "history" {
			return "replay/unknown-kind", kind
		}
		var tr Trace
		if err := json.Unmarshal(raw, &tr); err != nil {
			return "replay/bad-file", err.Error()
		}
		e := NewEngine(tr.Spec)
		if setup != nil {
			setup(e, NewStats(props[0]))
		}
		for _, op := range tr.Ops {
			rec := e.Apply(op)
			if rec == nil {
				continue
			}
			for _, cl := range rec.Clauses {
				if hasProp(cl, props) {
					return cl.Sig, cl.Msg
				}
			}
			if rec.Lost || len(rec.Clauses) > 0 {
				break
			}
		}
		return "", ""
	}
}

func isTransfer(rec *CallRecord) bool { return transferFns[rec.Call.Fn] }

func amountClass(rec *CallRecord) string {
	if len(rec.V.msgItems) > 0 {
		return sprintf("items=%d", len(rec.V.msgItems))
	}
	return "single"
}
