package harness

// Native (coverage-guided) fuzz targets, thorough tier only: byte-level search with the semantic oracle inside the
// target.  A failing input is written as a normal replay file by the target itself (workers share the filesystem);
// Go's fuzzer additionally saves it under testdata/fuzz/<target>/.

import (
	"encoding/json"
	"math/big"
	"os"
	"testing"
)

func failFuzz(t *testing.T, prop, kind string, payload interface{}, sig, msg string) {
	path := ReplayDir() + "/" + prop + ".fuzz.json"
	doc := map[string]interface{}{"property": prop, "kind": kind, "clause": sig, "detail": msg, "case": payload}
	b, _ := json.MarshalIndent(doc, "", " ")
	_ = os.WriteFile(path, b, 0o644)
	if vf := os.Getenv("VERIF_FUZZ_VIOLATIONS"); vf != "" {
		line, _ := json.Marshal(Violation{Property: prop, Signature: sig, Message: msg, Replay: path})
		if f, err := os.OpenFile(vf, os.O_APPEND|os.O_CREATE|os.O_WRONLY, 0o644); err == nil {
			f.Write(append(line, '\n'))
			f.Close()
		}
	}
	t.Fatalf("%s %s: %s", prop, sig, msg)
}

func FuzzC14Decode(f *testing.F) {
	f.Add([]byte{})
	f.Add([]byte{0x12, 0x02, 0x00, 0x00})
	f.Add(RefEncodeToken(&RefToken{Type: 1, Value: big.NewInt(300), Properties: []byte{1, 0}, Meta: &RefMeta{Nonce: 7, Name: []byte("n"), URIs: [][]byte{{}, []byte("u")}, Royalties: 10000}, Reserved: []byte{9}}))
	f.Add(RefEncodeRoles([][]byte{[]byte("ESDTRoleLocalMint"), {}}))
	f.Add(RefEncodeMeta(&RefMeta{Nonce: 1 << 63, Attributes: []byte("a")}))
	f.Add([]byte{0x12, 0x09, 0x01, 0xff, 0xff, 0xff, 0xff, 0xff, 0xff, 0xff, 0xff})
	f.Add([]byte{0x22, 0x00})
	f.Fuzz(func(t *testing.T, b []byte) {
		if sig, _, msg := c14Decode(b); sig != "" {
			failFuzz(t, "C14", "bytes", hx(b), sig, msg)
		}
		if sig, _, msg := c14AmountDecode(b); sig != "" {
			failFuzz(t, "C14", "amount-bytes", hx(b), sig, msg)
		}
		// an accepted token must also round-trip through the reference codec
		if rt, err := RefDecodeToken(b); err == nil && rt.Value != nil {
			tc := refToCase(rt)
			if sig, msg := c14Token(tc); sig != "" {
				failFuzz(t, "C14", "token", tc, sig, msg)
			}
		}
	})
}

func strp(b []byte) *string {
	if b == nil {
		return nil
	}
	s := hx(b)
	return &s
}

func refToCase(rt *RefToken) *tokenCase {
	tc := &tokenCase{Type: rt.Type, Properties: strp(rt.Properties), Reserved: strp(rt.Reserved)}
	if rt.Value != nil {
		s := rt.Value.String()
		tc.Value = &s
	}
	if rt.Meta != nil {
		m := rt.Meta
		mc := &metaCase{Nonce: m.Nonce, Name: strp(m.Name), Creator: strp(m.Creator), Royalties: m.Royalties, Hash: strp(m.Hash), Attributes: strp(m.Attributes), NilURIs: m.URIs == nil}
		for _, u := range m.URIs {
			mc.URIs = append(mc.URIs, hx(u))
		}
		tc.Meta = mc
	}
	return tc
}

func FuzzC12String(f *testing.F) {
	for _, s := range []string{"", "f", "f@", "@", "f@00@", "f@0g", "00@01@0100", "00@01@0100@aa@", "@6b@76", "6b@76@6b32@", "ESDTTransfer@544f4b@05", "f@@@", "F@AB@ab"} {
		f.Add(s)
	}
	f.Fuzz(func(t *testing.T, s string) {
		if sig, _, msg := c12String(s); sig != "" {
			failFuzz(t, "C12", "string", s, sig, msg)
		}
	})
}

// fuzzArgs decodes bytes into an argument list: each argument is introduced by one selector byte; selectors below 0xe0
// give a literal of (selector mod 24) bytes, the others pick from the hostile pool.
func fuzzArgs(b []byte, pool [][]byte, max int) [][]byte {
	var args [][]byte
	for len(b) > 0 && len(args) < max {
		sel := b[0]
		b = b[1:]
		if sel >= 0xe0 {
			args = append(args, pool[int(sel-0xe0)%len(pool)])
			continue
		}
		n := int(sel) % 24
		if n > len(b) {
			n = len(b)
		}
		args = append(args, append([]byte{}, b[:n]...))
		b = b[n:]
	}
	return args
}

func fuzzPool() [][]byte {
	addrA, addrB := userAddr(0, 0), userAddr(1, 0)
	pool := [][]byte{{}, {0}, {1}, {2}, {3}, []byte("FNG-a1b2c3"), []byte("SFT-0a0b0c"), []byte("NFT-112233"), []byte("FNG-a1b2c"), addrA, addrB, scAddr(0, 0), refESDTSC,
		RefEncodeToken(&RefToken{Type: 1, Value: big.NewInt(3), Meta: &RefMeta{Nonce: 1, Name: []byte("n")}}), {0x08, 0x01}, []byte("accept"), []byte(refESDTRoleLocalMint), []byte(refESDTRoleNFTCreate)}
	pool = append(pool, wrapResidues[:20]...)
	return pool
}

func FuzzC12TransferParser(f *testing.F) {
	f.Add(byte(0), true, []byte{0xe9 + 1, 0xe2, 0xe5, 0xe1, 0xe3})
	f.Add(byte(0), false, []byte{0xe2, 0xe5, 0xe2, 0xed})
	f.Add(byte(1), true, []byte{0xe6, 0xe2, 0xe3, 0xea})
	f.Add(byte(2), false, []byte{0xe5, 0xe3})
	pool := fuzzPool()
	fns := []string{"MultiESDTNFTTransfer", "ESDTNFTTransfer", "ESDTTransfer", "x"}
	f.Fuzz(func(t *testing.T, fn byte, atSender bool, b []byte) {
		c := &tpCase{Snd: hx(userAddr(0, 0)), Rcv: hx(userAddr(1, 0)), Fn: fns[int(fn)%len(fns)], Args: hexList(fuzzArgs(b, pool, 14))}
		if atSender {
			c.Rcv = c.Snd
		}
		if sig, _, msg := c12TransferParser(c); sig != "" {
			failFuzz(t, "C12", "transfer-parser", c, sig, msg)
		}
	})
}

// FuzzC11Call: one structured call on a fixed reachable pre-state (the 32-step fingerprint scenario of C18).
func FuzzC11Call(f *testing.F) {
	spec := MakeSpec(2, 1, true, 0, "5")
	pool := fuzzPool()
	f.Add(byte(22), byte(0), byte(0), uint64(ampleGas), []byte{0xe9 + 1, 0xe2, 0xe5, 0xe1, 0xe3})
	f.Add(byte(15), byte(0), byte(0), uint64(ampleGas), []byte{0xe6, 0xe2, 0xe3, 0xea})
	f.Add(byte(4), byte(0), byte(1), uint64(0), []byte{0xe5, 0xe3})
	f.Add(byte(3), byte(0), byte(0), uint64(7), []byte{3, 'k', 'e', 'y', 1, 'v'})
	f.Add(byte(22), byte(0), byte(0), ^uint64(0), []byte{0xea, 0xf2, 0xe5, 0xe1, 0xe2})
	f.Fuzz(func(t *testing.T, fn, callerSel, rcvSel byte, gas uint64, b []byte) {
		e := NewEngine(spec)
		e.Apply(Op{Kind: "epoch", Epoch: spec.ActivationEpoch})
		for _, op := range c18Script(spec) {
			e.Apply(op)
			for _, msg := range e.M.pendingMsgs() {
				e.Apply(callOp(e.DeliveryCall(msg)))
			}
		}
		holders := [][]byte{spec.Users[0], spec.Users[1], spec.Users[2], spec.Contracts[0].Addr, spec.Contracts[1].Addr}
		caller := holders[int(callerSel)%len(holders)]
		var rcv []byte
		switch rcvSel % 4 {
		case 0:
			rcv = caller
		case 1:
			rcv = holders[int(rcvSel/4)%len(holders)]
		case 2:
			rcv = refESDTSC
		default:
			rcv = metaSC()
		}
		c := &Call{Shard: int(e.M.shardOf(caller)), Fn: allFunctionNames[int(fn)%len(allFunctionNames)], Caller: cp(caller), Rcv: cp(rcv), Args: hbs(fuzzArgs(b, pool, 12)...), Gas: gas}
		rec := e.ExecCall(c)
		for _, cl := range rec.Clauses {
			if hasProp(cl, []string{"C11"}) {
				failFuzz(t, "C11", "history", Trace{Spec: spec, Ops: append(append([]Op{}, e.Ops...), callOp(c))}, cl.Sig, cl.Msg)
			}
		}
	})
}
