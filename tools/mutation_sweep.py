#!/usr/bin/env python3
"""Sensitivity sweep: applies each hand-written mutant (a textual replacement) to a scratch copy of /repo HEAD, keeps
it only if it compiles and the repository's unedited suite passes, runs the named quick checks against the copy
(VERIF_REPO) and prints one line per mutant.  Nothing is applied to /repo.   usage: mutation_sweep.py [name-filter]"""
import os, shutil, subprocess, sys, tempfile, json

ENV = dict(os.environ, GOFLAGS="-mod=mod", GOPROXY="off", GOSUMDB="off", GOTOOLCHAIN="local")
B = "builtInFunctions/"
MUTANTS = [
    # (name, file, old, new, properties expected to catch it)
    ("c02-localburn-adds", B + "esdtLocalBurn.go", "big.NewInt(0).Neg(value), e.marshalizer", "big.NewInt(0).Set(value), e.marshalizer", ["C02"]),
    ("c02-nftburn-lt-to-le", B + "esdtNFTBurn.go", "if esdtData.Value.Cmp(quantityToBurn) < 0 {", "if esdtData.Value.Cmp(quantityToBurn) <= 0 {", ["C02"]),
    ("c02-wipe-without-frozen-test", B + "esdtFreezeWipe.go", "if !esdtUserMetadata.Frozen {\n\t\treturn ErrCannotWipeAccountNotFrozen\n\t}", "_ = esdtUserMetadata", ["C02"]),
    ("c02-addq-reads-nonce-as-quantity", B + "esdtNFTAddQuantity.go", "big.NewInt(0).SetBytes(vmInput.Arguments[2]))", "big.NewInt(0).SetBytes(vmInput.Arguments[1]))", ["C02"]),
    ("c02-balance-check-le-zero", B + "esdtTransfer.go", "if esdtData.Value.Cmp(zero) < 0 {\n\t\treturn ErrInsufficientFunds", "if esdtData.Value.Cmp(zero) < 0 && value.Sign() > 0 {\n\t\treturn ErrInsufficientFunds", ["C02", "C01"]),
    ("c03-mint-checks-burn-role", B + "esdtLocalMint.go", "[]byte(vmcommon.ESDTRoleLocalMint))", "[]byte(vmcommon.ESDTRoleLocalBurn))", ["C03"]),
    ("c03-update-checks-adduri-role", B + "updateNFTAttributes.go", "[]byte(vmcommon.ESDTRoleNFTUpdateAttributes))", "[]byte(vmcommon.ESDTRoleNFTAddURI))", ["C03"]),
    ("c03-roles-dropped-system-check", B + "esdtRoles.go", "if !bytes.Equal(vmInput.CallerAddr, vmcommon.ESDTSCAddress) {\n\t\treturn nil, ErrAddressIsNotESDTSystemSC\n\t}", "", ["C03"]),
    ("c03-handover-dropped-sender-nil-check", B + "esdtNFTCreateRoleTransfer.go", "if !check.IfNil(acntSnd) {\n\t\treturn nil, ErrInvalidArguments\n\t}", "", ["C03"]),
    ("c03-setusername-dns-on-recipient", B + "saveUserName.go", "s.mapDnsAddresses[string(vmInput.CallerAddr)]", "s.mapDnsAddresses[string(vmInput.RecipientAddr)]", ["C03"]),
    ("c03-claim-owner-check-inverted", B + "claimDeveloperRewards.go", "if !bytes.Equal(vmInput.CallerAddr, acntDst.GetOwnerAddress()) {\n\t\treturn nil, ErrOperationNotPermitted", "if bytes.Equal(vmInput.CallerAddr, acntDst.GetOwnerAddress()) {\n\t\treturn nil, ErrOperationNotPermitted", ["C03"]),
    ("c04-addtobalance-no-flag-check", B + "esdtTransfer.go", "err = checkFrozeAndPause(userAcnt.AddressBytes(), key, esdtData, pauseHandler, isReturnWithError)\n\tif err != nil {\n\t\treturn err\n\t}", "", ["C04"]),
    ("c04-pause-looked-up-under-nft-key-only", B + "esdtNFTCreate.go", "err := checkFrozeAndPause(acnt.AddressBytes(), esdtTokenKey, esdtData, pauseHandler, isReturnWithError)\n\tif err != nil {\n\t\treturn nil, err\n\t}", "", ["C04"]),
    ("c04-freeze-toggle-drops-balance", B + "esdtFreezeWipe.go", "tokenData.Properties = esdtUserMetadata.ToBytes()", "tokenData.Properties = esdtUserMetadata.ToBytes()\n\tif !e.freeze {\n\t\ttokenData.Value.SetUint64(0)\n\t}", ["C04", "C02"]),
    ("c05-skv-prefix-case-folded", "address.go", "return !bytes.Equal(trimmedKey, []byte(ElrondProtectedKeyPrefix))", "return !bytes.EqualFold(trimmedKey, []byte(ElrondProtectedKeyPrefix))", ["C05"]),
    ("c05-skv-prefix-off-by-one", "address.go", "if len(key) < prefixLen {\n\t\treturn true", "if len(key) <= prefixLen {\n\t\treturn true", ["C05"]),
    ("c06-changeowner-plain-subtraction", B + "changeOwnerAddress.go", "if vmInput.GasProvided < c.gasCost {\n\t\treturn nil, ErrNotEnoughGas\n\t}", "", ["C06"]),
    ("c06-nftburn-guard-removed", B + "esdtNFTCreate.go", "if vmInput.GasProvided < funcGasCost {\n\t\treturn ErrNotEnoughGas\n\t}", "", ["C06"]),
    ("c07-counter-not-zeroed-on-handover", B + "esdtNFTCreateRoleTransfer.go", "err = saveLatestNonce(acntDst, tokenID, 0)\n\tif err != nil {\n\t\treturn nil, err\n\t}", "", ["C07"]),
    ("c07-role-left-at-old-holder", B + "esdtNFTCreateRoleTransfer.go", "deleteRoles(roles, [][]byte{[]byte(vmcommon.ESDTRoleNFTCreate)})", "", ["C07", "C03"]),
    ("c07-counter-saved-before-increment", B + "esdtNFTCreate.go", "err = saveLatestNonce(acntSnd, tokenID, nextNonce)", "err = saveLatestNonce(acntSnd, tokenID, nonce)", ["C07"]),
    ("c08-hash-and-attributes-swapped", B + "esdtNFTCreate.go", "Hash:       vmInput.Arguments[4],\n\t\t\tAttributes: vmInput.Arguments[5],", "Hash:       vmInput.Arguments[5],\n\t\t\tAttributes: vmInput.Arguments[4],", ["C08"]),
    ("c08-adduri-replaces", B + "esdtNFTAddUri.go", "esdtData.TokenMetaData.URIs = append(esdtData.TokenMetaData.URIs, vmInput.Arguments[2:]...)", "esdtData.TokenMetaData.URIs = append([][]byte{}, vmInput.Arguments[2:]...)", ["C08"]),
    ("c08-royalties-64-bit-compare-dropped", B + "esdtNFTCreate.go", "if royalties > vmcommon.MaxRoyalty {", "if royalties > vmcommon.MaxRoyalty+1 {", ["C08"]),
    ("c08-hash-comparison-removed", B + "esdtNFTTransfer.go", "if !bytes.Equal(currentESDTData.TokenMetaData.Hash, esdtDataToTransfer.TokenMetaData.Hash) {\n\t\t\treturn ErrWrongNFTOnDestination\n\t\t}", "", ["C08"]),
    ("c09-threshold-ge", B + "esdtTransfer.go", "if len(vmInput.Arguments) > minLenArguments {\n\t\treturn false", "if len(vmInput.Arguments) >= minLenArguments {\n\t\treturn false", ["C09"]),
    ("c09-oracle-error-ignored", B + "esdtTransfer.go", "if errPayable != nil {\n\t\t\t\treturn nil, errPayable\n\t\t\t}", "_ = errPayable", ["C09"]),
    ("c09-metachain-check-removed-nft", B + "esdtNFTTransfer.go", "if e.shardCoordinator.ComputeId(dstAddress) == vmcommon.MetachainShardId {\n\t\treturn nil, ErrInvalidRcvAddr\n\t}", "", ["C09"]),
    ("c09-multi-to-self-allowed", B + "multiESDTNFTTransfer.go", "if bytes.Equal(dstAddress, vmInput.CallerAddr) {\n\t\treturn nil, fmt.Errorf(\"%w, can not transfer to self\", ErrInvalidArguments)\n\t}", "", ["C09", "C01"]),
    ("c10-parser-nft-value-from-nonce", "parsers/esdtTransferParser.go", "ESDTValue:      big.NewInt(0).SetBytes(args[2]),", "ESDTValue:      big.NewInt(0).SetBytes(args[1]),", ["C10"]),
    ("c10-parser-callargs-off-by-one", "parsers/esdtTransferParser.go", "esdtTransfers.CallArgs = append(esdtTransfers.CallArgs, args[MinArgsForESDTNFTTransfer+1:]...)", "esdtTransfers.CallArgs = append(esdtTransfers.CallArgs, args[MinArgsForESDTNFTTransfer+2:]...)", ["C10"]),
    ("c10-nft-message-drops-last-call-arg", B + "esdtNFTTransfer.go", "nftTransferCallArgs = append(nftTransferCallArgs, vmInput.Arguments[4:]...)", "nftTransferCallArgs = append(nftTransferCallArgs, vmInput.Arguments[4:len(vmInput.Arguments)-1]...)", ["C10"]),
    ("c11-burn-indexes-before-count-check", B + "esdtBurn.go", "if len(vmInput.Arguments) != 2 {\n\t\treturn nil, ErrInvalidArguments\n\t}", "if len(vmInput.Arguments) > 2 {\n\t\treturn nil, ErrInvalidArguments\n\t}", ["C11"]),
    ("c11-update-metadata-presence", B + "esdtNFTCreate.go", "if esdtData.TokenMetaData == nil && nonce > 0 {\n\t\treturn nil, ErrNFTDoesNotHaveMetadata\n\t}", "", ["C11", "C01"]),
    ("c11-multi-allocates-before-validating", B + "multiESDTNFTTransfer.go", "numOfTransfers := big.NewInt(0).SetBytes(vmInput.Arguments[1]).Uint64()\n\tif numOfTransfers == 0 {", "numOfTransfers := big.NewInt(0).SetBytes(vmInput.Arguments[1]).Uint64()\n\t_ = make([]*esdt.ESDigitalToken, numOfTransfers&0xffffff)\n\tif numOfTransfers == 0 {", ["C11"]),
    ("c12-builder-uppercase-hex", "txDataBuilder/builder.go", "element := hex.EncodeToString(bytes)\n", "element := strings.ToUpper(hex.EncodeToString(bytes))\n", ["C12"]),
    ("c12-callargs-skips-first-argument", "parsers/callArgsParser.go", "for i := minNumCallArguments; i < len(tokens); i++ {", "for i := minNumCallArguments + 1; i < len(tokens); i++ {", ["C12"]),
    ("c14-size-off-by-one-for-zero", "data/bigIntCaster.go", "\treturn 2\n}", "\treturn 1\n}", ["C14"]),
    ("c14-sign-inverted", "data/bigIntCaster.go", "if a.Sign() < 0 {\n\t\tbuf[0] = 1", "if a.Sign() > 0 {\n\t\tbuf[0] = 1", ["C14"]),
    ("c15-zero-balance-stored", B + "esdtTransfer.go", "if isValueZero && arePropertiesEmpty(esdtData.Properties) {", "if isValueZero && len(esdtData.Properties) == 0 && esdtData.Type != 0 {", ["C15"]),
    ("c15-role-appended-twice-on-handover", B + "esdtNFTCreateRoleTransfer.go", "for _, role := range roles.Roles {\n\t\tif bytes.Equal(role, []byte(vmcommon.ESDTRoleNFTCreate)) {\n\t\t\treturn nil\n\t\t}\n\t}", "", ["C15", "C07"]),
    ("c16-nftburn-reads-addquantity-cost", B + "esdtNFTBurn.go", "e.funcGasCost = gasCost.BuiltInCost.ESDTNFTBurn", "e.funcGasCost = gasCost.BuiltInCost.ESDTNFTAddQuantity", ["C16"]),
    ("c16-adduri-per-byte-not-refreshed", B + "esdtNFTAddUri.go", "e.gasConfig = gasCost.BaseOperationCost", "", ["C16"]),
    ("c16-skv-uses-datacopy-price", B + "keyValueStorage.go", "useGas += length * k.gasConfig.PersistPerByte", "useGas += length * k.gasConfig.DataCopyPerByte", ["C16"]),
    ("c16-factory-stops-broadcast-early", B + "factory.go", "builtInFunc.SetNewGasConfig(b.gasConfig)", "if key == vmcommon.BuiltInFunctionESDTNFTBurn {\n\t\t\tcontinue\n\t\t}\n\t\tbuiltInFunc.SetNewGasConfig(b.gasConfig)", ["C16"]),
    ("c17-skv-ignores-write-error", B + "keyValueStorage.go", "err = acntSnd.AccountDataHandler().SaveKeyValue(key, value)\n\t\tif err != nil {\n\t\t\treturn nil, err\n\t\t}", "_ = acntSnd.AccountDataHandler().SaveKeyValue(key, value)", ["C17"]),
    ("c17-claim-ignores-addtobalance", B + "claimDeveloperRewards.go", "err = acntSnd.AddToBalance(value)\n\tif err != nil {\n\t\treturn nil, err\n\t}", "_ = acntSnd.AddToBalance(value)", ["C17"]),
    ("c17-pause-ignores-saveaccount", B + "esdtPause.go", "return e.accounts.SaveAccount(systemSCAccount)", "_ = e.accounts.SaveAccount(systemSCAccount)\n\treturn nil", ["C17"]),
    ("c18-flag-only-ever-set", B + "baseEnabled.go", "b.flagActivated.Toggle(epoch >= b.activationEpoch)", "if epoch >= b.activationEpoch {\n\t\tb.flagActivated.Set()\n\t}", ["C18"]),
    ("c18-mint-burn-swapped", B + "factory.go", "err = b.builtInFunctions.Add(vmcommon.BuiltInFunctionESDTLocalBurn, newFunc)", "err = b.builtInFunctions.Add(vmcommon.BuiltInFunctionESDTLocalBurn+\"x\", newFunc)", ["C18"]),
    ("c20-nonce-overwritten", "output.go", "if outAcc.Nonce > o.Nonce {\n\t\to.Nonce = outAcc.Nonce\n\t}", "o.Nonce = outAcc.Nonce", ["C20"]),
    ("c20-safesub-le", "gasCost.go", "if a < b {", "if a <= b {", ["C20"]),
    ("c20-codemeta-wrong-byte", "codeMetadata.go", "Payable:     (bytes[1] & MetadataPayable) != 0,", "Payable:     (bytes[0] & MetadataPayable) != 0,", ["C20"]),
    ("c20-transfers-appended-whole", "output.go", "append(o.OutputTransfers, outAcc.OutputTransfers[lenLeftOutTransfers:]...)", "append(o.OutputTransfers, outAcc.OutputTransfers...)", ["C20"]),
]


def run(cmd, cwd, timeout=900):
    p = subprocess.run(cmd, cwd=cwd, env=ENV, stdout=subprocess.PIPE, stderr=subprocess.STDOUT, text=True, timeout=timeout)
    return p.returncode, p.stdout


def main():
    flt = sys.argv[1] if len(sys.argv) > 1 else ""
    results = []
    for name, path, old, new, props in MUTANTS:
        if flt and flt not in name:
            continue
        d = tempfile.mkdtemp(prefix="msweep.", dir="/var/tmp")
        try:
            subprocess.run("git -C /repo archive HEAD | tar -x -C %s" % d, shell=True, check=True)
            src = open(os.path.join(d, path)).read()
            if old not in src:
                print("%-45s PATTERN-NOT-FOUND" % name); continue
            src = src.replace(old, new, 1)
            if "strings.ToUpper" in new and '"strings"' not in src:
                src = src.replace('import (', 'import (\n\t"strings"', 1)
            open(os.path.join(d, path), "w").write(src)
            rc, out = run(["go", "build", "./..."], d)
            if rc != 0:
                # unused imports after deleting code are the usual reason; try goimports-free fix: report
                print("%-45s DOES-NOT-COMPILE %s" % (name, out.strip().splitlines()[-1][:120])); continue
            rc, out = run(["go", "test", "-vet=off", "-count=1", "./..."], d)
            if rc != 0:
                bad = [l for l in out.splitlines() if l.startswith("--- FAIL")][:2]
                print("%-45s killed-by-repo-suite %s" % (name, bad)); continue
            line = []
            for p in props:
                rc, out = run(["/verif/check", p], "/verif", timeout=1800) if False else (None, None)
                e = dict(ENV, VERIF_REPO=d)
                pr = subprocess.run(["/verif/check", p], cwd="/verif", env=e, stdout=subprocess.PIPE, stderr=subprocess.STDOUT, text=True)
                sig = [l.strip() for l in pr.stdout.splitlines() if l.strip().startswith("signature:")]
                line.append("%s rc=%d %s" % (p, pr.returncode, sig[0][11:70] if sig else ""))
            print("%-45s %s" % (name, " | ".join(line)), flush=True)
            results.append((name, line))
        finally:
            shutil.rmtree(d, ignore_errors=True)


if __name__ == "__main__":
    main()
