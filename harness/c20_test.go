package harness

// C20 — shared VM helper types obey their algebraic laws.
// Exhaustive enumeration of the small byte domains, structured enumeration of addresses, rapid-generated
// OutputAccount pairs/triples and SafeSub pairs.  Oracles are written from the statement and the exported
// layout constants, never from the implementation's own output.

import (
	"bytes"
	"encoding/json"
	"math/big"
	"reflect"
	"sort"
	"testing"

	vmcommon "github.com/ElrondNetwork/elrond-vm-common"
	"github.com/ElrondNetwork/elrond-vm-common/builtInFunctions"
	"pgregory.net/rapid"
)

// ---------- code metadata / ESDT flag bytes ----------

func c20CodeMeta(b []byte) (string, string) {
	var m vmcommon.CodeMetadata
	if p := noPanic(func() { m = vmcommon.CodeMetadataFromBytes(b) }); p != nil {
		return "codemeta/panic", sprintf("CodeMetadataFromBytes(%x) panicked: %v", b, p)
	}
	if len(b) != 2 {
		if m != (vmcommon.CodeMetadata{}) {
			return "codemeta/other-length-not-empty", sprintf("CodeMetadataFromBytes(%x) = %+v, want the empty value", b, m)
		}
		return "", ""
	}
	// documented layout: byte0 bit MetadataUpgradeable / MetadataReadable, byte1 bit MetadataPayable
	want := vmcommon.CodeMetadata{
		Upgradeable: b[0]&refMetadataUpgradeable != 0,
		Readable:    b[0]&refMetadataReadable != 0,
		Payable:     b[1]&refMetadataPayable != 0,
	}
	if m != want {
		return "codemeta/decode", sprintf("CodeMetadataFromBytes(%x) = %+v, want %+v", b, m, want)
	}
	back := m.ToBytes()
	mask := []byte{b[0] & (refMetadataUpgradeable | refMetadataReadable), b[1] & refMetadataPayable}
	if !bytes.Equal(back, mask) {
		return "codemeta/bytes-roundtrip", sprintf("ToBytes(FromBytes(%x)) = %x, want %x", b, back, mask)
	}
	if again := vmcommon.CodeMetadataFromBytes(back); again != m {
		return "codemeta/value-roundtrip", sprintf("FromBytes(ToBytes(%+v)) = %+v", m, again)
	}
	return "", ""
}

func c20EsdtFlags(b []byte) (string, string) {
	var g builtInFunctions.ESDTGlobalMetadata
	var u builtInFunctions.ESDTUserMetadata
	if p := noPanic(func() {
		g = builtInFunctions.ESDTGlobalMetadataFromBytes(b)
		u = builtInFunctions.ESDTUserMetadataFromBytes(b)
	}); p != nil {
		return "esdtflags/panic", sprintf("FromBytes(%x) panicked: %v", b, p)
	}
	if len(b) != 2 {
		if g.Paused || u.Frozen {
			return "esdtflags/other-length-not-empty", sprintf("FromBytes(%x) = %+v %+v, want empty values", b, g, u)
		}
		return "", ""
	}
	if g.Paused != (b[0]&builtInFunctions.MetadataPaused != 0) {
		return "esdtflags/global-decode", sprintf("GlobalFromBytes(%x).Paused = %v", b, g.Paused)
	}
	if u.Frozen != (b[0]&builtInFunctions.MetadataFrozen != 0) {
		return "esdtflags/user-decode", sprintf("UserFromBytes(%x).Frozen = %v", b, u.Frozen)
	}
	gb, ub := g.ToBytes(), u.ToBytes()
	if !bytes.Equal(gb, []byte{b[0] & builtInFunctions.MetadataPaused, 0}) {
		return "esdtflags/global-roundtrip", sprintf("Global ToBytes(FromBytes(%x)) = %x", b, gb)
	}
	if !bytes.Equal(ub, []byte{b[0] & builtInFunctions.MetadataFrozen, 0}) {
		return "esdtflags/user-roundtrip", sprintf("User ToBytes(FromBytes(%x)) = %x", b, ub)
	}
	if builtInFunctions.ESDTGlobalMetadataFromBytes(gb) != g || builtInFunctions.ESDTUserMetadataFromBytes(ub) != u {
		return "esdtflags/value-roundtrip", sprintf("FromBytes(ToBytes(..)) differs for %x", b)
	}
	return "", ""
}

// ---------- address classification ----------

func c20Address(id, a []byte) (string, string) {
	var sc, meta, sys, empty, mid bool
	if p := noPanic(func() {
		sc = vmcommon.IsSmartContractAddress(a)
		meta = vmcommon.IsSmartContractOnMetachain(id, a)
		sys = vmcommon.IsSystemAccountAddress(a)
		empty = vmcommon.IsEmptyAddress(a)
		mid = vmcommon.IsMetachainIdentifier(id)
	}); p != nil {
		return "address/panic", sprintf("classification of id=%x addr=%x panicked: %v", id, a, p)
	}
	if meta && !sc {
		return "address/meta-not-contract", sprintf("id=%x addr=%x is a metachain contract but not a contract address", id, a)
	}
	if meta && !mid {
		return "address/meta-without-meta-id", sprintf("id=%x addr=%x on metachain with a non-metachain identifier", id, a)
	}
	if empty != allEq(a, 0) {
		return "address/empty", sprintf("IsEmptyAddress(%x) = %v", a, empty)
	}
	if sc != refIsSC(a) {
		return "address/contract-format", sprintf("IsSmartContractAddress(%x) = %v, address format says %v", a, sc, !sc)
	}
	if mid != refIsMetaID(id) {
		return "address/meta-id", sprintf("IsMetachainIdentifier(%x) = %v", id, mid)
	}
	if meta != refIsSCOnMeta(id, a) {
		return "address/meta-format", sprintf("IsSmartContractOnMetachain(%x, %x) = %v, address format says %v", id, a, meta, !meta)
	}
	if sys != refIsSystemAccount(a) {
		return "address/system-account", sprintf("IsSystemAccountAddress(%x) = %v", a, sys)
	}
	// the classification depends on the bytes of the address only, not on what lies behind it in memory: the same
	// address as a view into a larger buffer (spare capacity filled with zeros, then with 0xff) classifies identically
	for _, fill := range []byte{0x00, 0xff} {
		big := append(append(make([]byte, 0, len(a)+40), a...), bytesOf(fill, 40)...)
		view := big[:len(a)]
		var sc2, meta2, sys2, empty2 bool
		if p := noPanic(func() {
			sc2, meta2, sys2, empty2 = vmcommon.IsSmartContractAddress(view), vmcommon.IsSmartContractOnMetachain(id, view), vmcommon.IsSystemAccountAddress(view), vmcommon.IsEmptyAddress(view)
		}); p != nil {
			return "address/panic", sprintf("classification of a view of %x panicked: %v", a, p)
		}
		if sc2 != sc || meta2 != meta || sys2 != sys || empty2 != empty {
			return "address/reads-beyond-length", sprintf("id=%x addr=%x classifies differently when %d bytes of %#x follow it in memory", id, a, 40, fill)
		}
	}
	return "", ""
}

func bytesOf(v byte, n int) []byte { return bytes.Repeat([]byte{v}, n) }

func c20AddressDomain(visit func(id, a []byte)) {
	ids := [][]byte{{}, {0xff}, {0xff, 0xff}, {0x00}, {0xff, 0x00}, {0x00, 0xff}, {0xfe}}
	var addrs [][]byte
	for l := 0; l <= 40; l++ {
		addrs = append(addrs, bytes.Repeat([]byte{0}, l), bytes.Repeat([]byte{0xff}, l))
		for z := 0; z <= l; z++ { // zero prefix of each length, rest 0xab
			a := bytes.Repeat([]byte{0xab}, l)
			copy(a, make([]byte, z))
			addrs = append(addrs, a)
			if z < l { // one non-zero byte inside an otherwise zero address
				b := make([]byte, l)
				b[z] = 1
				addrs = append(addrs, b)
			}
		}
	}
	for _, base := range [][]byte{vmcommon.ESDTSCAddress, vmcommon.SystemAccountAddress} {
		addrs = append(addrs, append([]byte{}, base...))
		for i := range base {
			for _, d := range []byte{0x01, 0xff} {
				p := append([]byte{}, base...)
				p[i] ^= d
				addrs = append(addrs, p)
			}
		}
		for _, l := range []int{0, 1, 9, 10, 11, 24, 25, 26, 29, 30, 31} {
			addrs = append(addrs, append([]byte{}, base[:l]...))
		}
		addrs = append(addrs, append(append([]byte{}, base...), 0), append(append([]byte{}, base...), 0xff))
	}
	for _, id := range ids {
		for _, a := range addrs {
			visit(id, a)
		}
	}
}

func c20Constants() (string, string) {
	e, s := vmcommon.ESDTSCAddress, vmcommon.SystemAccountAddress
	if !vmcommon.IsSmartContractAddress(e) {
		return "address/esdt-sc-not-contract", "ESDTSCAddress does not classify as a contract address"
	}
	if !vmcommon.IsSmartContractOnMetachain(e[len(e)-vmcommon.ShardIdentiferLen:], e) || !vmcommon.IsSmartContractOnMetachain(e[len(e)-1:], e) {
		return "address/esdt-sc-not-meta", "ESDTSCAddress does not classify as a metachain contract"
	}
	if vmcommon.IsSystemAccountAddress(e) {
		return "address/esdt-sc-is-system-account", "ESDTSCAddress classifies as the system account"
	}
	if !vmcommon.IsSystemAccountAddress(s) {
		return "address/system-account", "SystemAccountAddress does not classify as the system account"
	}
	if vmcommon.IsSmartContractAddress(s) || vmcommon.IsSmartContractOnMetachain(s[len(s)-1:], s) || vmcommon.IsEmptyAddress(s) {
		return "address/system-account-is-contract", "SystemAccountAddress classifies as a contract / empty address"
	}
	return "", ""
}

// ---------- SafeSubUint64 ----------

func c20SafeSub(a, b uint64) (string, string) {
	r, err := vmcommon.SafeSubUint64(a, b)
	if a < b {
		if err == nil {
			return "safesub/no-error-on-underflow", sprintf("SafeSubUint64(%d,%d) = %d, nil", a, b, r)
		}
		return "", ""
	}
	if err != nil {
		return "safesub/error-without-underflow", sprintf("SafeSubUint64(%d,%d) errors: %v", a, b, err)
	}
	if r != a-b {
		return "safesub/value", sprintf("SafeSubUint64(%d,%d) = %d", a, b, r)
	}
	return "", ""
}

// ---------- OutputAccount merges ----------

type otCase struct {
	Value  *string `json:"value"`
	Gas    uint64  `json:"gas"`
	Locked uint64  `json:"locked"`
	Data   *string `json:"data"`
	Type   int     `json:"type"`
	Sender *string `json:"sender"`
}

type oaCase struct {
	Address   *string              `json:"address"`
	Nonce     uint64               `json:"nonce"`
	Balance   *string              `json:"balance"`
	Delta     *string              `json:"delta"`
	HasMap    bool                 `json:"has_map"`
	Storage   map[string][2]string `json:"storage"` // key -> offset hex, data hex
	Code      *string              `json:"code"`
	CodeMeta  *string              `json:"code_meta"`
	Deployer  *string              `json:"deployer"`
	Transfers []otCase             `json:"transfers"`
	NilTrans  bool                 `json:"nil_transfers"`
	GasUsed   uint64               `json:"gas_used"`
}

func optBytes(s *string) []byte {
	if s == nil {
		return nil
	}
	return append([]byte{}, unhx(*s)...)
}

func optBig(s *string) *big.Int {
	if s == nil {
		return nil
	}
	v, ok := new(big.Int).SetString(*s, 10)
	if !ok {
		panic("bad big in replay")
	}
	return v
}

func (c *oaCase) build() *vmcommon.OutputAccount {
	o := &vmcommon.OutputAccount{
		Address: optBytes(c.Address), Nonce: c.Nonce, Balance: optBig(c.Balance), BalanceDelta: optBig(c.Delta),
		Code: optBytes(c.Code), CodeMetadata: optBytes(c.CodeMeta), CodeDeployerAddress: optBytes(c.Deployer), GasUsed: c.GasUsed,
	}
	if c.HasMap {
		o.StorageUpdates = map[string]*vmcommon.StorageUpdate{}
		for k, v := range c.Storage {
			o.StorageUpdates[string(unhx(k))] = &vmcommon.StorageUpdate{Offset: unhx(v[0]), Data: unhx(v[1])}
		}
	}
	if !c.NilTrans {
		o.OutputTransfers = make([]vmcommon.OutputTransfer, 0, len(c.Transfers))
		for _, t := range c.Transfers {
			o.OutputTransfers = append(o.OutputTransfers, vmcommon.OutputTransfer{
				Value: optBig(t.Value), GasLimit: t.Gas, GasLocked: t.Locked, Data: optBytes(t.Data),
				CallType: vmcommon.CallType(t.Type), SenderAddress: optBytes(t.Sender),
			})
		}
	}
	return o
}

func bigOrZero(v *big.Int) *big.Int {
	if v == nil {
		return new(big.Int)
	}
	return v
}

// c20Merge merges accs[1:] one after another into accs[0] and checks the stated laws after every merge.
func c20Merge(cases []oaCase) (string, string) {
	left := cases[0].build()
	wantDelta := new(big.Int).Set(bigOrZero(left.BalanceDelta))
	wantNonce := left.Nonce
	wantStore := map[string][2]string{}
	for k, u := range left.StorageUpdates {
		wantStore[k] = [2]string{string(u.Offset), string(u.Data)}
	}
	wantTransfers := append([]vmcommon.OutputTransfer{}, cases[0].build().OutputTransfers...)

	var merged []*vmcommon.OutputAccount // the accounts merged in so far
	var pristine []*vmcommon.OutputAccount
	for i := 1; i < len(cases); i++ {
		right := cases[i].build()
		copyOfRight := cases[i].build()
		merged = append(merged, right)
		pristine = append(pristine, copyOfRight)

		if p := noPanic(func() { left.MergeOutputAccounts(right) }); p != nil {
			return "merge/panic", sprintf("merge #%d panicked: %v", i, p)
		}
		wantDelta.Add(wantDelta, bigOrZero(copyOfRight.BalanceDelta))
		if copyOfRight.Nonce > wantNonce {
			wantNonce = copyOfRight.Nonce
		}
		for k, u := range copyOfRight.StorageUpdates {
			wantStore[k] = [2]string{string(u.Offset), string(u.Data)}
		}
		if n := len(wantTransfers); len(copyOfRight.OutputTransfers) > n {
			wantTransfers = append(wantTransfers, copyOfRight.OutputTransfers[n:]...)
		}

		if left.BalanceDelta == nil || left.BalanceDelta.Cmp(wantDelta) != 0 {
			return "merge/delta-not-sum", sprintf("after merge #%d delta = %v, want %v", i, left.BalanceDelta, wantDelta)
		}
		if left.Nonce != wantNonce {
			return "merge/nonce-not-max", sprintf("after merge #%d nonce = %d, want %d", i, left.Nonce, wantNonce)
		}
		if len(left.StorageUpdates) != len(wantStore) {
			return "merge/storage-keys", sprintf("after merge #%d %d storage updates, want %d", i, len(left.StorageUpdates), len(wantStore))
		}
		for k, w := range wantStore {
			u := left.StorageUpdates[k]
			if u == nil || string(u.Offset) != w[0] || string(u.Data) != w[1] {
				return "merge/storage-later-wins", sprintf("after merge #%d storage[%x] = %+v, want offset=%x data=%x", i, k, u, w[0], w[1])
			}
		}
		if len(left.OutputTransfers) != len(wantTransfers) {
			return "merge/transfers-count", sprintf("after merge #%d %d transfers, want %d", i, len(left.OutputTransfers), len(wantTransfers))
		}
		for j := range wantTransfers {
			if !reflect.DeepEqual(left.OutputTransfers[j], wantTransfers[j]) {
				return "merge/transfers-content", sprintf("after merge #%d transfer %d = %+v, want %+v", i, j, left.OutputTransfers[j], wantTransfers[j])
			}
		}
		// nothing merged in so far may have been modified, not even by this later merge
		for j := range merged {
			if !reflect.DeepEqual(merged[j], pristine[j]) {
				return "merge/mutates-merged-in", sprintf("after merge #%d the account merged in at step %d changed: %+v, was %+v", i, j+1, merged[j], pristine[j])
			}
		}
	}
	return "", ""
}

func genOptHex(t *rapid.T, label string, pool [][]byte) *string {
	k := rapid.IntRange(0, len(pool)).Draw(t, label)
	if k == len(pool) {
		return nil
	}
	s := hx(pool[k])
	return &s
}

func genOA(t *rapid.T, label string) oaCase {
	bigs := []string{"0", "1", "-1", "255", "-256", "18446744073709551616", "-340282366920938463463374607431768211456", "7",
		"4611686018427387904", "9223372036854775807", "-9223372036854775808", "9223372036854775808", "5000000000000000000", "-5000000000000000000"}
	optBigGen := func(l string) *string {
		k := rapid.IntRange(0, len(bigs)).Draw(t, label+l)
		if k == len(bigs) {
			return nil
		}
		return &bigs[k]
	}
	small := [][]byte{{}, {1}, {2, 3}, []byte("addr-A"), []byte("addr-B")}
	c := oaCase{
		Address: genOptHex(t, label+"addr", small), Nonce: rapid.SampledFrom([]uint64{0, 1, 2, 7, 1 << 63, ^uint64(0)}).Draw(t, label+"nonce"),
		Balance: optBigGen("bal"), Delta: optBigGen("delta"), HasMap: rapid.Bool().Draw(t, label+"hasmap"),
		Code: genOptHex(t, label+"code", small), CodeMeta: genOptHex(t, label+"cm", small), Deployer: genOptHex(t, label+"dep", small),
		NilTrans: rapid.Bool().Draw(t, label+"niltr"), GasUsed: rapid.Uint64Range(0, 3).Draw(t, label+"gasused"),
	}
	if c.HasMap {
		c.Storage = map[string][2]string{}
		n := rapid.IntRange(0, 4).Draw(t, label+"nkeys")
		for i := 0; i < n; i++ {
			k := rapid.SampledFrom([]string{"", "6b31", "6b32", "6b33", "454c524f4e44"}).Draw(t, label+"key")
			v := rapid.SampledFrom([]string{"", "00", "01", "ffff"}).Draw(t, label+"val")
			c.Storage[k] = [2]string{k, v}
		}
	}
	if !c.NilTrans {
		// transfers come from a shared pool so that one list is frequently a prefix of the other
		n := rapid.IntRange(0, 4).Draw(t, label+"ntr")
		for i := 0; i < n; i++ {
			shared := rapid.IntRange(0, 3).Draw(t, label+"shared") > 0
			var tr otCase
			if shared {
				v := bigs[i%len(bigs)]
				d := hx([]byte{byte(i)})
				tr = otCase{Value: &v, Gas: uint64(i), Data: &d, Type: i % 4}
			} else {
				tr = otCase{Value: optBigGen("trv"), Gas: rapid.Uint64Range(0, 5).Draw(t, label+"trg"), Locked: rapid.Uint64Range(0, 2).Draw(t, label+"trl"),
					Data: genOptHex(t, label+"trd", small), Type: rapid.IntRange(0, 3).Draw(t, label+"trt"), Sender: genOptHex(t, label+"trs", small)}
			}
			c.Transfers = append(c.Transfers, tr)
		}
	}
	return c
}

func TestC20(t *testing.T) {
	st := NewStats("C20")
	defer finish(t, st)

	// (1) exhaustive byte domains — sharded by process
	idx := 0
	for b0 := 0; b0 < 256; b0++ {
		for b1 := 0; b1 < 256; b1++ {
			idx++
			if !mine(idx) {
				continue
			}
			b := []byte{byte(b0), byte(b1)}
			st.Eval(2)
			if b0 != 0 || b1 != 0 {
				st.NTEnumerated(2)
			}
			if sig, msg := c20CodeMeta(b); sig != "" {
				failPlain(t, st, "C20", "codemeta", hx(b), sig, msg)
			}
			if sig, msg := c20EsdtFlags(b); sig != "" {
				failPlain(t, st, "C20", "esdtflags", hx(b), sig, msg)
			}
		}
	}
	alphabet := []byte{0x00, 0xff, 0x07}
	var rec func(prefix []byte, l int)
	rec = func(prefix []byte, l int) {
		if len(prefix) == l {
			idx++
			if !mine(idx) {
				return
			}
			st.Eval(2)
			if !allEq(prefix, 0) {
				st.NTEnumerated(2)
			}
			b := append([]byte{}, prefix...)
			if sig, msg := c20CodeMeta(b); sig != "" {
				failPlain(t, st, "C20", "codemeta", hx(b), sig, msg)
			}
			if sig, msg := c20EsdtFlags(b); sig != "" {
				failPlain(t, st, "C20", "esdtflags", hx(b), sig, msg)
			}
			return
		}
		for _, a := range alphabet {
			rec(append(prefix, a), l)
		}
	}
	for _, l := range []int{0, 1, 3, 4} {
		rec(nil, l)
	}
	if p := noPanic(func() { _ = vmcommon.CodeMetadataFromBytes(nil); _ = builtInFunctions.ESDTUserMetadataFromBytes(nil) }); p != nil {
		failPlain(t, st, "C20", "codemeta", "nil", "codemeta/panic", sprintf("nil input panicked: %v", p))
	}
	// all flag structs
	for i := 0; i < 8; i++ {
		m := vmcommon.CodeMetadata{Payable: i&1 != 0, Upgradeable: i&2 != 0, Readable: i&4 != 0}
		st.Eval(1)
		if back := vmcommon.CodeMetadataFromBytes(m.ToBytes()); back != m || len(m.ToBytes()) != 2 {
			failPlain(t, st, "C20", "codemeta-struct", i, "codemeta/value-roundtrip", sprintf("FromBytes(ToBytes(%+v)) = %+v", m, back))
		}
	}
	st.Exhaustive = append(st.Exhaustive, "all 65536 two-byte inputs and all inputs of length 0,1,3,4 over {00,ff,07} for CodeMetadata, ESDTGlobalMetadata, ESDTUserMetadata; all 8 CodeMetadata structs")

	// (2) structured address enumeration
	if sig, msg := c20Constants(); sig != "" {
		failPlain(t, st, "C20", "constants", nil, sig, msg)
	}
	c20AddressDomain(func(id, a []byte) {
		idx++
		if !mine(idx) {
			return
		}
		st.Eval(1)
		if len(a) > 0 && !allEq(a, 0) {
			st.NTEnumerated(1)
		}
		if idx%997 == 0 {
			st.Sample("address", map[string]string{"identifier": hx(id), "address": hx(a)})
		}
		if sig, msg := c20Address(id, a); sig != "" {
			failPlain(t, st, "C20", "address", map[string]string{"id": hx(id), "addr": hx(a)}, sig, msg)
		}
	})
	st.Exhaustive = append(st.Exhaustive, "address patterns of length 0..40 (zero/ff/zero-prefix/single-bit) and single-byte perturbations, truncations and extensions of ESDTSCAddress and SystemAccountAddress x 7 identifiers")

	// (3) SafeSub boundary pairs
	bounds := []uint64{0, 1, 2, 1<<32 - 1, 1 << 32, 1<<63 - 1, 1 << 63, 1<<63 + 1, ^uint64(0) - 1, ^uint64(0)}
	for _, a := range bounds {
		for _, b := range bounds {
			idx++
			if !mine(idx) {
				continue
			}
			st.Eval(1)
			st.NTEnumerated(1)
			if sig, msg := c20SafeSub(a, b); sig != "" {
				failPlain(t, st, "C20", "safesub", [2]uint64{a, b}, sig, msg)
			}
		}
	}

	// (4) generated merges and SafeSub pairs
	rapid.Check(t, func(rt *rapid.T) {
		n := rapid.IntRange(2, 4).Draw(rt, "naccounts")
		cases := make([]oaCase, n)
		for i := range cases {
			cases[i] = genOA(rt, sprintf("a%d.", i))
		}
		st.Eval(1)
		overlap := false
		for k := range cases[1].Storage {
			if _, ok := cases[0].Storage[k]; ok {
				overlap = true
			}
		}
		if len(cases[1].Transfers) > len(cases[0].Transfers) && len(cases[0].Transfers) > 0 {
			st.Label("merge/right-transfers-extend-left")
		}
		if overlap || cases[1].Delta != nil || len(cases[1].Transfers) > 0 {
			b, _ := json.Marshal(cases)
			st.NT("merge:" + string(b))
			st.Label(sprintf("merge/overlap=%v/n=%d", overlap, n))
		}
		st.Sample("merge", cases)
		if sig, msg := c20Merge(cases); sig != "" {
			failRapid(rt, st, "C20", "merge", cases, sig, msg)
		}
		a, b := rapid.Uint64().Draw(rt, "a"), rapid.Uint64().Draw(rt, "b")
		if rapid.Bool().Draw(rt, "near") {
			b = a + uint64(rapid.IntRange(-2, 2).Draw(rt, "d"))
		}
		st.Eval(1)
		st.NT(sprintf("safesub:%d:%d", a, b))
		if sig, msg := c20SafeSub(a, b); sig != "" {
			failRapid(rt, st, "C20", "safesub", [2]uint64{a, b}, sig, msg)
		}
	})
	keys := make([]string, 0, len(st.Labels))
	for k := range st.Labels {
		keys = append(keys, k)
	}
	sort.Strings(keys)
}

// replayC20 re-evaluates a saved counter-example without any generator library.
func replayC20(kind string, raw json.RawMessage) (string, string) {
	switch kind {
	case "codemeta", "esdtflags":
		var s string
		_ = json.Unmarshal(raw, &s)
		var b []byte
		if s != "nil" {
			b = unhx(s)
		}
		if kind == "codemeta" {
			return c20CodeMeta(b)
		}
		return c20EsdtFlags(b)
	case "codemeta-struct":
		var i int
		_ = json.Unmarshal(raw, &i)
		m := vmcommon.CodeMetadata{Payable: i&1 != 0, Upgradeable: i&2 != 0, Readable: i&4 != 0}
		if back := vmcommon.CodeMetadataFromBytes(m.ToBytes()); back != m {
			return "codemeta/value-roundtrip", sprintf("FromBytes(ToBytes(%+v)) = %+v", m, back)
		}
		return "", ""
	case "constants":
		return c20Constants()
	case "address":
		var m map[string]string
		_ = json.Unmarshal(raw, &m)
		return c20Address(unhx(m["id"]), unhx(m["addr"]))
	case "safesub":
		var p [2]uint64
		_ = json.Unmarshal(raw, &p)
		return c20SafeSub(p[0], p[1])
	case "merge":
		var cases []oaCase
		if err := json.Unmarshal(raw, &cases); err != nil {
			return "replay/bad-file", err.Error()
		}
		return c20Merge(cases)
	}
	return "replay/unknown-kind", kind
}
