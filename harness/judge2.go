package harness

// Reference model, part 3: verdicts for the supply-changing, role-gated, system-contract and account-level functions.

import (
	"bytes"
	"math/big"
)

func (m *Model) judgeOther(c *Call, v *Verdict) {
	args := args2bytes(c.Args)
	sndLocal, dstLocal := m.local(c.Caller, c.Shard), m.local(c.Rcv, c.Shard)
	self := bytes.Equal(c.Caller, c.Rcv) && sndLocal
	switch c.Fn {
	case refBuiltInFunctionESDTLocalMint, refBuiltInFunctionESDTLocalBurn:
		if !self || len(args) < 2 {
			return
		}
		m.judgeLocalMintBurn(c, v, args)
	case refBuiltInFunctionESDTBurn:
		if !sndLocal || !isESDTSC(c.Rcv) || len(args) != 2 {
			return
		}
		m.judgeBurn(c, v, args)
	case refBuiltInFunctionESDTNFTCreate:
		if !self || len(args) < 7 {
			return
		}
		m.judgeCreate(c, v, args)
	case refBuiltInFunctionESDTNFTAddQuantity, refBuiltInFunctionESDTNFTBurn, refBuiltInFunctionESDTNFTAddURI, refBuiltInFunctionESDTNFTUpdateAttributes:
		if !self || len(args) < 3 {
			return
		}
		m.judgeNFTOwnHolding(c, v, args)
	case refBuiltInFunctionESDTFreeze, refBuiltInFunctionESDTUnFreeze, refBuiltInFunctionESDTWipe:
		m.judgeFreezeWipe(c, v, args, dstLocal)
	case refBuiltInFunctionESDTPause, refBuiltInFunctionESDTUnPause:
		m.judgePause(c, v, args)
	case refBuiltInFunctionSetESDTRole, refBuiltInFunctionUnSetESDTRole:
		m.judgeRoles(c, v, args, dstLocal)
	case refBuiltInFunctionESDTNFTCreateRoleTransfer:
		m.judgeHandOver(c, v, args, sndLocal, dstLocal)
	case refBuiltInFunctionChangeOwnerAddress:
		m.judgeChangeOwner(c, v, args, sndLocal, dstLocal)
	case refBuiltInFunctionClaimDeveloperRewards:
		m.judgeClaim(c, v, args, sndLocal, dstLocal)
	case refBuiltInFunctionSetUserName:
		m.judgeSetUserName(c, v, args, sndLocal, dstLocal)
	case refBuiltInFunctionSaveKeyValue:
		m.judgeSaveKeyValue(c, v, args, sndLocal)
	}
}

func (m *Model) roleCheck(v *Verdict, c *Call, token []byte, role string) {
	if !m.acc(c.Shard, c.Caller).hasRole(token, role) {
		v.fail(pC03, c.Fn+"/missing-role", "%s by %s who does not hold %s for token %q (holds %v)", c.Fn, shortAddr(c.Caller), role, token, m.acc(c.Shard, c.Caller).Roles[string(token)])
	}
}

func (m *Model) judgeLocalMintBurn(c *Call, v *Verdict, args [][]byte) {
	token, value := args[0], bigOf(args[1])
	suffix := string(token)
	mint := c.Fn == refBuiltInFunctionESDTLocalMint
	v.Known, v.Side, v.Named = true, "sender", [][]byte{token}
	v.Suffixes = []string{suffix}
	acc := m.acc(c.Shard, c.Caller)
	if mint {
		m.roleCheck(v, c, token, refESDTRoleLocalMint)
		v.Charge = u64p(m.gas(c.Shard, "ESDTLocalMint"))
	} else {
		m.roleCheck(v, c, token, refESDTRoleLocalBurn)
		if value.Cmp(acc.bal(suffix)) > 0 {
			v.fail(pC02, c.Fn+"/overdraft", "burning %v exceeds the holding %v", value, acc.bal(suffix))
		}
		v.Charge = u64p(m.gas(c.Shard, "ESDTLocalBurn"))
	}
	m.flagChecks(v, c, c.Caller, token, suffix, c.Fn)
	v.Apply = func(res *Result) []Clause {
		d := new(big.Int).Set(value)
		if !mint {
			d.Neg(d)
		}
		acc.add(suffix, d, nil)
		m.addSupply(suffix, d)
		return nil
	}
}

func (m *Model) judgeBurn(c *Call, v *Verdict, args [][]byte) {
	token, value := args[0], bigOf(args[1])
	suffix := string(token)
	v.Known, v.Side, v.Named = true, "sender", [][]byte{token}
	v.Suffixes = []string{suffix}
	acc := m.acc(c.Shard, c.Caller)
	if value.Cmp(acc.bal(suffix)) > 0 {
		v.fail(pC02, "ESDTBurn/overdraft", "burning %v exceeds the holding %v", value, acc.bal(suffix))
	}
	if e := acc.entry(suffix); e.Meta != nil && value.Sign() > 0 {
		if info, _ := m.tokenOfSuffix(suffix); info != nil && !acc.hasRole([]byte(info.ID), refESDTRoleNFTBurn) {
			// the identifier argument spells the storage key of an NFT / SFT holding: burning from it is an NFT burn
			v.fail(pC03, "ESDTBurn/nft-holding-burnt-without-role", "the identifier %x is the key of the caller's holding of %q nonce %d: burning from it needs the NFT burn role", token, info.ID, e.Meta.Nonce)
		}
	}
	m.flagChecks(v, c, c.Caller, token, suffix, "ESDTBurn")
	v.Charge = u64p(m.gas(c.Shard, "ESDTBurn"))
	v.Apply = func(res *Result) []Clause {
		var out []Clause
		d := new(big.Int).Neg(value)
		acc.add(suffix, d, nil)
		m.addSupply(suffix, d)
		// a contract's burn is reported to the system contract by an emitted ESDTBurn message: what it encodes is the
		// token and the amount that were burnt (the amount compared as a number, its byte form is the encoder's choice)
		if ot := firstTransfer(res, c.Rcv); ot != nil && len(ot.Data) > 0 {
			fn, margs, err := TxDecode(string(ot.Data))
			if err != nil || fn != c.Fn || len(margs) != len(args) || !bytes.Equal(margs[0], token) || bigOf(margs[1]).Cmp(value) != 0 || !argsEqual(margs[2:], args[2:]) {
				out = append(out, clause(pC10, "ESDTBurn/message-content", "emitted message %q does not encode the burn of %v of token %q", ot.Data, value, token))
			}
		}
		return out
	}
}

func (m *Model) judgeCreate(c *Call, v *Verdict, args [][]byte) {
	token, qty := args[0], bigOf(args[1])
	if qty.Sign() == 0 {
		return // "creates exactly the given quantity under a fresh nonce" says nothing sensible about zero
	}
	v.Known, v.Side, v.Named = true, "sender", [][]byte{token}
	acc := m.acc(c.Shard, c.Caller)
	m.roleCheck(v, c, token, refESDTRoleNFTCreate)
	if qty.Cmp(big.NewInt(1)) > 0 && !acc.hasRole(token, refESDTRoleNFTAddQuantity) {
		v.fail(pC03, "ESDTNFTCreate/missing-add-quantity-role", "creating quantity %v without %s", qty, refESDTRoleNFTAddQuantity)
	}
	royalties := uint32(low64(args[3]))
	if royalties > refMaxRoyalty {
		v.fail(pC08, "ESDTNFTCreate/royalties", "royalties %d above %d", royalties, refMaxRoyalty)
	}
	if !c.RetErr && m.paused(c.Shard, token) {
		v.fail(pC04, "ESDTNFTCreate/paused", "token %q is paused on shard %d", token, c.Shard)
	}
	nonce := acc.Counter[string(token)] + 1
	total := uint64(0)
	for _, a := range args {
		total += uint64(len(a))
	}
	v.Charge = u64p(m.gas(c.Shard, "ESDTNFTCreate") + total*m.gas(c.Shard, "StorePerByte"))
	meta := &RefMeta{Nonce: nonce, Name: cp(args[2]), Creator: cp(c.Caller), Royalties: royalties, Hash: cp(args[4]), Attributes: cp(args[5])}
	for _, u := range args[6:] {
		meta.URIs = append(meta.URIs, cp(u))
	}
	suffix := suffixOf(token, nonce)
	v.Suffixes = []string{suffix}
	if m.IssuedAt[suffix] {
		v.fail([]string{"C07", "C02"}, "ESDTNFTCreate/nonce-reused", "nonce %d of token %q was issued before", nonce, token)
	}
	v.Labels = append(v.Labels, "create")
	v.Apply = func(res *Result) []Clause {
		var out []Clause
		if len(res.Out.ReturnData) != 1 || !bytes.Equal(res.Out.ReturnData[0], beNonce(nonce)) {
			out = append(out, clause(pC07, "ESDTNFTCreate/returned-nonce", "create returned %x, previous counter + 1 is %d", res.Out.ReturnData, nonce))
		}
		if nonce <= m.Issued[string(token)] {
			out = append(out, clause(pC07, "ESDTNFTCreate/not-increasing", "nonce %d is not above the highest nonce ever issued for %q (%d)", nonce, token, m.Issued[string(token)]))
		}
		acc.Counter[string(token)] = nonce
		acc.setEntry(suffix, &Entry{Value: new(big.Int).Set(qty), Meta: meta})
		m.addSupply(suffix, qty)
		m.IssuedAt[suffix] = true
		if nonce > m.Issued[string(token)] {
			m.Issued[string(token)] = nonce
		}
		return out
	}
}

func (m *Model) judgeNFTOwnHolding(c *Call, v *Verdict, args [][]byte) {
	token, nonce := args[0], low64(args[1])
	if nonce == 0 {
		return
	}
	suffix := suffixOf(token, nonce)
	acc := m.acc(c.Shard, c.Caller)
	e := acc.entry(suffix)
	if e.Value.Sign() == 0 || e.Meta == nil {
		return // no holding of that NFT: the statements say nothing about it succeeding
	}
	v.Known, v.Side, v.Named = true, "sender", [][]byte{token}
	v.Suffixes = []string{suffix}
	pausedCheck := func() {
		m.flagChecks(v, c, c.Caller, token, suffix, c.Fn)
	}
	switch c.Fn {
	case refBuiltInFunctionESDTNFTAddQuantity:
		m.roleCheck(v, c, token, refESDTRoleNFTAddQuantity)
		pausedCheck()
		qty := bigOf(args[2])
		v.Charge = u64p(m.gas(c.Shard, "ESDTNFTAddQuantity"))
		v.Apply = func(res *Result) []Clause {
			acc.add(suffix, qty, nil)
			m.addSupply(suffix, qty)
			return nil
		}
	case refBuiltInFunctionESDTNFTBurn:
		m.roleCheck(v, c, token, refESDTRoleNFTBurn)
		pausedCheck()
		qty := bigOf(args[2])
		if qty.Cmp(e.Value) > 0 {
			v.fail(pC02, "ESDTNFTBurn/overdraft", "burning %v exceeds the holding %v", qty, e.Value)
		}
		v.Charge = u64p(m.gas(c.Shard, "ESDTNFTBurn"))
		v.Apply = func(res *Result) []Clause {
			d := new(big.Int).Neg(qty)
			acc.add(suffix, d, nil)
			m.addSupply(suffix, d)
			return nil
		}
	case refBuiltInFunctionESDTNFTAddURI:
		m.roleCheck(v, c, token, refESDTRoleNFTAddURI)
		pausedCheck()
		l := uint64(0)
		for _, u := range args[2:] {
			l += uint64(len(u))
		}
		v.Charge = u64p(m.gas(c.Shard, "ESDTNFTAddURI") + l*m.gas(c.Shard, "StorePerByte"))
		v.Labels = append(v.Labels, "metadata-update")
		v.Apply = func(res *Result) []Clause {
			ne := e.clone()
			for _, u := range args[2:] {
				ne.Meta.URIs = append(ne.Meta.URIs, cp(u))
			}
			acc.setEntry(suffix, ne)
			return nil
		}
	case refBuiltInFunctionESDTNFTUpdateAttributes:
		if len(args) != 3 {
			v.Known = false
			return
		}
		m.roleCheck(v, c, token, refESDTRoleNFTUpdateAttributes)
		pausedCheck()
		v.Charge = u64p(m.gas(c.Shard, "ESDTNFTUpdateAttributes") + uint64(len(args[2]))*m.gas(c.Shard, "StorePerByte"))
		v.Labels = append(v.Labels, "metadata-update")
		v.Apply = func(res *Result) []Clause {
			ne := e.clone()
			ne.Meta.Attributes = cp(args[2])
			acc.setEntry(suffix, ne)
			return nil
		}
	}
}

// ---------------------------------------------------------------- system-contract functions

func noEffect(res *Result) []Clause { return nil }

func (m *Model) judgeFreezeWipe(c *Call, v *Verdict, args [][]byte, dstLocal bool) {
	if len(args) != 1 {
		return
	}
	token := args[0]
	suffix := string(token)
	v.Known, v.Side, v.Named = true, "system", [][]byte{token}
	v.Suffixes = []string{suffix}
	if !isESDTSC(c.Caller) || !dstLocal {
		v.Apply = noEffect // anyone else changes no state
		v.Labels = append(v.Labels, "unauthorised-system-call")
		return
	}
	acc := m.acc(c.Shard, c.Rcv)
	e := acc.entry(suffix)
	// only a message that changes something has to be accepted: freezing a frozen holding or unfreezing one that is not
	// frozen may be refused (the system contract does not know the shard's state and may repeat itself)
	if c.CallValue == 0 && !refIsSystemAccount(c.Rcv) && ((c.Fn == refBuiltInFunctionESDTWipe && e.Frozen) ||
		(c.Fn == refBuiltInFunctionESDTFreeze && !e.Frozen) || (c.Fn == refBuiltInFunctionESDTUnFreeze && e.Frozen)) {
		props := pC04
		if c.Fn == refBuiltInFunctionESDTWipe {
			props = pC02
		}
		cl := clause(props, c.Fn+"/system-message-refused", "a freeze / unfreeze / wipe message from the ESDT system contract for an account on this shard was refused")
		v.MustSucceed = &cl
	}
	switch c.Fn {
	case refBuiltInFunctionESDTWipe:
		if !e.Frozen {
			v.fail(pC02, "ESDTWipe/not-frozen", "wipe of an account that is not frozen for %q", token)
		}
		v.Apply = func(res *Result) []Clause {
			m.addSupply(suffix, new(big.Int).Neg(e.Value))
			delete(acc.Entries, suffix)
			return nil
		}
	default:
		freeze := c.Fn == refBuiltInFunctionESDTFreeze
		v.Apply = func(res *Result) []Clause {
			ne := e.clone()
			ne.Frozen = freeze
			acc.setEntry(suffix, ne)
			return nil
		}
	}
}

func (m *Model) judgePause(c *Call, v *Verdict, args [][]byte) {
	if len(args) != 1 {
		return
	}
	token := args[0]
	v.Known, v.Side, v.Named = true, "system", [][]byte{token}
	// any address that classifies as the system account stands for it: the metachain addresses each shard's copy by
	// replacing the last byte with the shard id, and the flag lives under the canonical address on every shard
	if !isESDTSC(c.Caller) || !refIsSystemAccount(c.Rcv) {
		v.Apply = noEffect
		v.Labels = append(v.Labels, "unauthorised-system-call")
		return
	}
	pause := c.Fn == refBuiltInFunctionESDTPause
	if c.CallValue == 0 && m.Shards[c.Shard].PauseFlag[string(token)] != pause {
		// (a pause of a paused token / an unpause of a token that is not paused changes nothing and may be refused)
		cl := clause(pC04, c.Fn+"/system-message-refused", "a pause / unpause message from the ESDT system contract, addressed to this shard's system account, was refused: the token's pause state on this shard never follows the system contract")
		v.MustSucceed = &cl
	}
	v.Apply = func(res *Result) []Clause {
		m.Shards[c.Shard].PauseFlag[string(token)] = pause
		return nil
	}
}

func (m *Model) judgeRoles(c *Call, v *Verdict, args [][]byte, dstLocal bool) {
	if len(args) < 2 {
		return
	}
	token := args[0]
	v.Known, v.Side, v.Named = true, "system", [][]byte{token}
	if !isESDTSC(c.Caller) || !dstLocal {
		v.Apply = noEffect
		v.Labels = append(v.Labels, "unauthorised-system-call")
		return
	}
	acc := m.acc(c.Shard, c.Rcv)
	changes := false
	for _, r := range args[1:] {
		if acc.hasRole(token, string(r)) != (c.Fn == refBuiltInFunctionSetESDTRole) {
			changes = true
		}
	}
	if c.CallValue == 0 && !refIsSystemAccount(c.Rcv) && changes {
		// nothing in a system-contract role message can be wrong for the library: refusing it leaves the shard and
		// the system contract's books apart for good (a message that would change nothing may be refused)
		cl := clause(pC03, c.Fn+"/system-message-refused", "a role message from the ESDT system contract for an account on this shard was refused")
		v.MustSucceed = &cl
	}
	set := c.Fn == refBuiltInFunctionSetESDTRole
	v.Apply = func(res *Result) []Clause {
		cur := append([]string{}, acc.Roles[string(token)]...)
		for _, r := range args[1:] {
			if set {
				// (a repeated role - never sent by the disciplined system contract - is held once)
				dup := false
				for _, x := range cur {
					dup = dup || x == string(r)
				}
				if !dup {
					cur = append(cur, string(r))
				}
				continue
			}
			for i, x := range cur {
				if x == string(r) {
					cur = append(cur[:i], cur[i+1:]...)
					break
				}
			}
		}
		if len(cur) == 0 {
			delete(acc.Roles, string(token))
		} else {
			acc.Roles[string(token)] = cur
		}
		return nil
	}
}

func removeRole(acc *MAccount, token []byte, role string) {
	cur := acc.Roles[string(token)]
	for i, x := range cur {
		if x == role {
			cur = append(append([]string{}, cur[:i]...), cur[i+1:]...)
			break
		}
	}
	if len(cur) == 0 {
		delete(acc.Roles, string(token))
	} else {
		acc.Roles[string(token)] = cur
	}
}

func addRoleOnce(acc *MAccount, token []byte, role string) {
	if !acc.hasRole(token, role) {
		acc.Roles[string(token)] = append(append([]string{}, acc.Roles[string(token)]...), role)
	}
}

func setCounter(acc *MAccount, token []byte, n uint64) {
	if n == 0 {
		delete(acc.Counter, string(token))
	} else {
		acc.Counter[string(token)] = n
	}
}

func (m *Model) judgeHandOver(c *Call, v *Verdict, args [][]byte, sndLocal, dstLocal bool) {
	if len(args) < 2 {
		return
	}
	token := args[0]
	v.Known, v.Side, v.Named = true, "system", [][]byte{token}
	msg := m.msg(c.MsgID)
	switch {
	case isESDTSC(c.Caller) && dstLocal && !sndLocal && len(args) == 2 && len(args[1]) == len(c.Caller):
		// at the current holder
		old := m.acc(c.Shard, c.Rcv)
		newHolder := args[1]
		counter := old.Counter[string(token)]
		newLocal := m.local(newHolder, c.Shard)
		v.Labels = append(v.Labels, "handover/at-current-holder")
		if c.CallValue == 0 && old.hasRole(token, refESDTRoleNFTCreate) && !bytes.Equal(newHolder, c.Rcv) {
			// the system contract's hand-over for the actual holder: nothing in it can be wrong for the library - also
			// not a new owner that has no account record yet
			cl := clause([]string{"C07", "C03"}, "ESDTNFTCreateRoleTransfer/system-message-refused", "the hand-over message of the ESDT system contract was refused at the current holder: the old holder keeps role and counter while the system contract's books say otherwise")
			v.MustSucceed = &cl
		}
		v.Apply = func(res *Result) []Clause {
			var out []Clause
			setCounter(old, token, 0)
			removeRole(old, token, refESDTRoleNFTCreate)
			if newLocal {
				nh := m.acc(c.Shard, newHolder)
				setCounter(nh, token, counter)
				addRoleOnce(nh, token, refESDTRoleNFTCreate)
				return out
			}
			if m.shardOf(newHolder) == refMetachainShard {
				return out
			}
			nm := &Msg{Kind: "handover", Fn: c.Fn, Caller: cp(c.Rcv), Rcv: cp(newHolder), Token: cp(token), Counter: counter}
			ot := firstTransfer(res, newHolder)
			if ot == nil {
				out = append(out, clause([]string{"C07", "C10"}, "ESDTNFTCreateRoleTransfer/no-message", "cross-shard hand-over emitted no message: role and counter are lost"))
				m.newMsg(nm).Done = true
				return out
			}
			fn, margs, err := TxDecode(string(ot.Data))
			nm.Args, nm.Gas, nm.GasLocked, nm.CallType = margs, ot.GasLimit, ot.GasLocked, int(ot.CallType)
			if err != nil || fn != c.Fn || len(margs) != 2 || !bytes.Equal(margs[0], token) || bigOf(margs[1]).Cmp(new(big.Int).SetUint64(counter)) != 0 {
				out = append(out, clause([]string{"C10", "C07"}, "ESDTNFTCreateRoleTransfer/message-content", "emitted message %q does not carry token %q and counter %d", ot.Data, token, counter))
			}
			m.newMsg(nm)
			return out
		}
	case msg != nil && msg.Kind == "handover" && (!msg.Done || c.Redeliver) && dstLocal && !sndLocal && bytes.Equal(c.Rcv, msg.Rcv):
		nh := m.acc(c.Shard, c.Rcv)
		v.Labels = append(v.Labels, "handover/at-next-holder")
		cl := clause([]string{"C07", "C10"}, "ESDTNFTCreateRoleTransfer/delivery-refused", "the hand-over message was refused by the new holder's shard")
		v.MustSucceed = &cl
		v.Apply = func(res *Result) []Clause {
			setCounter(nh, msg.Token, msg.Counter)
			addRoleOnce(nh, msg.Token, refESDTRoleNFTCreate)
			msg.Done = true
			msg.Delivered++
			return nil
		}
	default:
		// anybody else: no state may change
		v.Apply = noEffect
		v.Labels = append(v.Labels, "unauthorised-system-call")
	}
}

// ---------------------------------------------------------------- account-level functions

func (m *Model) judgeChangeOwner(c *Call, v *Verdict, args [][]byte, sndLocal, dstLocal bool) {
	if len(args) < 1 || (!sndLocal && !dstLocal) {
		return
	}
	msg := m.msg(c.MsgID)
	if !sndLocal && (msg == nil || msg.Done || msg.Fn != c.Fn) {
		return
	}
	v.Known, v.Side = true, "account"
	if sndLocal {
		v.Charge = u64p(m.gas(c.Shard, "ChangeOwnerAddress"))
	}
	authorised := dstLocal && bytes.Equal(m.acc(c.Shard, c.Rcv).Owner, c.Caller) && len(args[0]) == len(c.Caller)
	if dstLocal && !authorised {
		v.Labels = append(v.Labels, "unauthorised-account-call")
	}
	v.Apply = func(res *Result) []Clause {
		if authorised {
			m.acc(c.Shard, c.Rcv).Owner = cp(args[0])
		}
		if msg != nil {
			msg.Done = true
		}
		if sndLocal && !dstLocal && m.shardOf(c.Rcv) != refMetachainShard && !refIsSC(c.Caller) {
			m.newMsg(&Msg{Kind: "account", Fn: c.Fn, Caller: cp(c.Caller), Rcv: cp(c.Rcv), Args: args, Gas: c.Gas, CallType: c.CallType})
		}
		return nil
	}
}

func (m *Model) judgeClaim(c *Call, v *Verdict, args [][]byte, sndLocal, dstLocal bool) {
	if !sndLocal && !dstLocal {
		return
	}
	msg := m.msg(c.MsgID)
	if !sndLocal && (msg == nil || msg.Done || msg.Fn != c.Fn) {
		return
	}
	v.Known, v.Side = true, "account"
	if sndLocal {
		v.Charge = u64p(m.gas(c.Shard, "ClaimDeveloperRewards"))
	}
	authorised := dstLocal && bytes.Equal(m.acc(c.Shard, c.Rcv).Owner, c.Caller)
	if dstLocal && !authorised {
		v.Labels = append(v.Labels, "unauthorised-account-call")
	}
	v.Apply = func(res *Result) []Clause {
		if authorised {
			dst := m.acc(c.Shard, c.Rcv)
			r := dst.Reward
			dst.Reward = new(big.Int)
			if sndLocal {
				snd := m.acc(c.Shard, c.Caller)
				snd.Balance = new(big.Int).Add(snd.Balance, r)
			}
		}
		if msg != nil {
			msg.Done = true
		}
		if sndLocal && !dstLocal && m.shardOf(c.Rcv) != refMetachainShard && !refIsSC(c.Caller) {
			m.newMsg(&Msg{Kind: "account", Fn: c.Fn, Caller: cp(c.Caller), Rcv: cp(c.Rcv), Args: args, Gas: c.Gas, CallType: c.CallType})
		}
		return nil
	}
}

func (m *Model) judgeSetUserName(c *Call, v *Verdict, args [][]byte, sndLocal, dstLocal bool) {
	if len(args) != 1 || (!sndLocal && !dstLocal) {
		return
	}
	msg := m.msg(c.MsgID)
	if !sndLocal && (msg == nil || msg.Done || msg.Fn != c.Fn) {
		return
	}
	isDNS := m.DNS[string(c.Caller)]
	if isDNS && dstLocal && len(m.acc(c.Shard, c.Rcv).UserName) > 0 && !m.NameChg {
		return // renaming while renaming is disabled: outside the statements
	}
	v.Known, v.Side = true, "account"
	if dstLocal && sndLocal && isDNS {
		// C16 speaks about sender-side executions: only the same-shard execution (which is both) is priced here; a
		// destination-side delivery is left to the gas-is-never-created monitor
		v.Charge = u64p(m.gas(c.Shard, "SaveUserName"))
	}
	if !isDNS {
		v.Labels = append(v.Labels, "unauthorised-account-call")
	}
	if msg != nil && isDNS && dstLocal && msg.Gas >= m.gas(c.Shard, "SaveUserName") {
		// the continuation of the library's own cross-shard SetUserName (enough gas under the schedule now in force)
		cl := clause([]string{"C10", "C18"}, "SetUserName/delivery-refused", "the cross-shard SetUserName message emitted by the library was refused by the destination shard's SetUserName")
		v.MustSucceed = &cl
	}
	v.Apply = func(res *Result) []Clause {
		var out []Clause
		if isDNS && dstLocal {
			m.acc(c.Shard, c.Rcv).UserName = cp(args[0])
		}
		if msg != nil {
			msg.Done = true
		}
		if isDNS && !dstLocal && m.shardOf(c.Rcv) != refMetachainShard {
			nm := &Msg{Kind: "account", Fn: c.Fn, Caller: cp(c.Caller), Rcv: cp(c.Rcv)}
			ot := firstTransfer(res, c.Rcv)
			if ot == nil {
				out = append(out, clause(pC10, "SetUserName/no-message", "cross-shard SetUserName emitted no message"))
				return out
			}
			fn, margs, err := TxDecode(string(ot.Data))
			nm.Args, nm.Gas, nm.GasLocked, nm.CallType = margs, ot.GasLimit, ot.GasLocked, int(ot.CallType)
			if err != nil || fn != c.Fn || len(margs) != 1 || !bytes.Equal(margs[0], args[0]) {
				out = append(out, clause(pC10, "SetUserName/message-content", "emitted message %q does not carry the user name %x", ot.Data, args[0]))
			}
			m.newMsg(nm)
		}
		return out
	}
}

func (m *Model) judgeSaveKeyValue(c *Call, v *Verdict, args [][]byte, sndLocal bool) {
	if !sndLocal || len(args) < 2 || len(args)%2 != 0 {
		return
	}
	v.Known, v.Side = true, "sender"
	if !bytes.Equal(c.Caller, c.Rcv) {
		v.fail(pC05, "SaveKeyValue/not-self", "SaveKeyValue addressed to another account")
	}
	if refIsSC(c.Caller) {
		v.fail(pC05, "SaveKeyValue/contract-caller", "SaveKeyValue by a contract account")
	}
	acc := m.acc(c.Shard, c.Caller)
	charge := m.gas(c.Shard, "SaveKeyValue")
	scratch := map[string][]byte{}
	get := func(k string) []byte {
		if x, ok := scratch[k]; ok {
			return x
		}
		return acc.KV[k]
	}
	for i := 0; i < len(args); i += 2 {
		k, val := args[i], args[i+1]
		if len(k) >= len(refProtectedPrefix) && string(k[:len(refProtectedPrefix)]) == refProtectedPrefix {
			v.fail(pC05, "SaveKeyValue/protected-key", "key %q begins with the protected prefix", k)
		}
		charge += uint64(len(k)+len(val)) * m.gas(c.Shard, "PersistPerByte")
		old := get(string(k))
		if !bytes.Equal(old, val) {
			if len(val) > len(old) {
				charge += uint64(len(val)-len(old)) * m.gas(c.Shard, "StorePerByte")
			}
			scratch[string(k)] = cp(val)
		}
	}
	v.Charge = u64p(charge)
	v.Apply = func(res *Result) []Clause {
		for k, val := range scratch {
			if len(val) == 0 {
				delete(acc.KV, k)
			} else {
				acc.KV[k] = val
			}
		}
		return nil
	}
}
