package harness

// C12 — transaction-data parsers are total and inverse to the builders.

import (
	"bytes"
	"encoding/json"
	"math/big"
	"strings"
	"testing"

	vmcommon "github.com/ElrondNetwork/elrond-vm-common"
	"github.com/ElrondNetwork/elrond-vm-common/parsers"
	"github.com/ElrondNetwork/elrond-vm-common/txDataBuilder"
	"pgregory.net/rapid"
)

func argsEqual(a, b [][]byte) bool {
	if len(a) != len(b) {
		return false
	}
	for i := range a {
		if !bytes.Equal(a[i], b[i]) {
			return false
		}
	}
	return true
}

func hexList(a [][]byte) []string {
	out := make([]string, len(a))
	for i := range a {
		out[i] = hx(a[i])
	}
	return out
}

func unhexList(a []string) [][]byte {
	out := make([][]byte, len(a))
	for i := range a {
		out[i] = unhx(a[i])
	}
	return out
}

// c12String runs one arbitrary string through the three string parsers.
// accepted reports whether any parser accepted it.
func c12String(s string) (sig string, accepted bool, msg string) {
	// call arguments
	var fn string
	var args [][]byte
	var err error
	if p := noPanic(func() { fn, args, err = parsers.NewCallArgsParser().ParseData(s) }); p != nil {
		return "callargs/panic", false, sprintf("ParseData(%q) panicked: %v", s, p)
	}
	if err != nil && (fn != "" || args != nil) {
		return "callargs/result-and-error", false, sprintf("ParseData(%q) returned (%q, %x) together with %v", s, fn, args, err)
	}
	rfn, rargs, rerr := TxDecode(s)
	if rerr == nil {
		// every string in the documented format must parse to exactly what it encodes
		if err != nil || fn != rfn || !argsEqual(args, rargs) {
			return "callargs/valid-input", false, sprintf("ParseData(%q) = (%q, %x, %v); the format says (%q, %x)", s, fn, args, err, rfn, rargs)
		}
	}
	if err == nil {
		accepted = true
	}

	// deploy arguments
	var d *parsers.DeployArgs
	if p := noPanic(func() { d, err = parsers.NewDeployArgsParser().ParseData(s) }); p != nil {
		return "deploy/panic", accepted, sprintf("deploy ParseData(%q) panicked: %v", s, p)
	}
	if (err == nil) == (d == nil) {
		return "deploy/result-and-error", accepted, sprintf("deploy ParseData(%q) = (%v, %v)", s, d, err)
	}
	if rerr2, code, vmType, meta, dargs := refDeploy(s); rerr2 == nil {
		if err != nil || !bytes.Equal(d.Code, code) || !bytes.Equal(d.VMType, vmType) || d.CodeMetadata != meta || !argsEqual(d.Arguments, dargs) {
			return "deploy/valid-input", accepted, sprintf("deploy ParseData(%q) = (%+v, %v); the format says code=%x vm=%x meta=%+v args=%x", s, d, err, code, vmType, meta, dargs)
		}
	}
	if err == nil {
		accepted = true
	}

	// storage updates
	var ups []*vmcommon.StorageUpdate
	if p := noPanic(func() { ups, err = parsers.NewStorageUpdatesParser().GetStorageUpdates(s) }); p != nil {
		return "storage/panic", accepted, sprintf("GetStorageUpdates(%q) panicked: %v", s, p)
	}
	if err != nil && ups != nil {
		return "storage/result-and-error", accepted, sprintf("GetStorageUpdates(%q) returned %d updates together with %v", s, len(ups), err)
	}
	if rerr3, pairs := refStorage(s); rerr3 == nil {
		ok := err == nil && len(ups) == len(pairs)
		for i := 0; ok && i < len(pairs); i++ {
			ok = ups[i] != nil && bytes.Equal(ups[i].Offset, pairs[i][0]) && bytes.Equal(ups[i].Data, pairs[i][1])
		}
		if !ok {
			return "storage/valid-input", accepted, sprintf("GetStorageUpdates(%q) = (%d updates, %v); the format says %x", s, len(ups), err, pairs)
		}
	}
	if err == nil {
		accepted = true
	}
	return "", accepted, ""
}

// refDeploy: code@vmType@codeMetadata[@arg…], code and vmType non-empty hex.
func refDeploy(s string) (error, []byte, []byte, vmcommon.CodeMetadata, [][]byte) {
	toks := strings.Split(s, "@")
	if len(toks) < 3 || toks[0] == "" || toks[1] == "" {
		return errWire, nil, nil, vmcommon.CodeMetadata{}, nil
	}
	_, all, err := TxDecode("x@" + s)
	if err != nil {
		return err, nil, nil, vmcommon.CodeMetadata{}, nil
	}
	var meta vmcommon.CodeMetadata
	if m := all[2]; len(m) == 2 {
		meta = vmcommon.CodeMetadata{Upgradeable: m[0]&refMetadataUpgradeable != 0, Readable: m[0]&refMetadataReadable != 0, Payable: m[1]&refMetadataPayable != 0}
	}
	return nil, all[0], all[1], meta, all[3:]
}

// refStorage: [@]offset@data[@offset@data…], first offset non-empty.
func refStorage(s string) (error, [][2][]byte) {
	if strings.HasPrefix(s, "@") {
		s = s[1:]
	}
	if s == "" || s[0] == '@' {
		return errWire, nil
	}
	_, all, err := TxDecode("x@" + s)
	if err != nil || len(all)%2 != 0 {
		return errWire, nil
	}
	var out [][2][]byte
	for i := 0; i < len(all); i += 2 {
		out = append(out, [2][]byte{all[i], all[i+1]})
	}
	return nil, out
}

// ---- builder round trip ----

type builderOp struct {
	Kind string `json:"kind"` // bytes str int int64 bigint byte bool
	Hex  string `json:"hex,omitempty"`
	Int  int64  `json:"int,omitempty"`
	Big  string `json:"big,omitempty"`
	Bool bool   `json:"bool,omitempty"`
}

func c12Builder(fn string, ops []builderOp) (string, string) {
	// half of the cases recycle one long-lived builder with Clear(), as a node's tx-building code does
	b := txDataBuilder.NewBuilder()
	if len(ops)%2 == 1 || len(fn)%2 == 1 {
		b = sharedBuilder.Clear()
	}
	b.Func(fn)
	var want [][]byte
	for _, op := range ops {
		switch op.Kind {
		case "bytes":
			b.Bytes(unhx(op.Hex))
			want = append(want, unhx(op.Hex))
		case "str":
			b.Str(string(unhx(op.Hex)))
			want = append(want, unhx(op.Hex))
		case "int":
			b.Int(int(op.Int))
			want = append(want, big.NewInt(op.Int).Bytes())
		case "int64":
			b.Int64(op.Int)
			want = append(want, big.NewInt(op.Int).Bytes())
		case "bigint":
			v, _ := new(big.Int).SetString(op.Big, 10)
			b.BigInt(v)
			want = append(want, v.Bytes())
		case "byte":
			b.Byte(byte(op.Int))
			want = append(want, []byte{byte(op.Int)})
		case "bool":
			b.Bool(op.Bool)
			if op.Bool {
				want = append(want, []byte("true"))
			} else {
				want = append(want, []byte("false"))
			}
		}
	}
	s := b.ToString()
	if !bytes.Equal(b.ToBytes(), []byte(s)) {
		return "builder/tobytes", sprintf("ToBytes() = %q, ToString() = %q", b.ToBytes(), s)
	}
	gotFn, gotArgs, err := parsers.NewCallArgsParser().ParseData(s)
	if err != nil || gotFn != fn || !argsEqual(gotArgs, want) {
		return "builder/roundtrip", sprintf("builder produced %q; ParseData gives (%q, %x, %v), built from (%q, %x)", s, gotFn, gotArgs, err, fn, want)
	}
	// build -> parse -> build is the identity on strings
	b2 := txDataBuilder.NewBuilder().Func(gotFn)
	for _, a := range gotArgs {
		b2.Bytes(a)
	}
	if b2.ToString() != s {
		return "builder/rebuild", sprintf("rebuilt %q from the parse of %q", b2.ToString(), s)
	}
	if s != TxEncode(fn, want) {
		return "builder/format", sprintf("builder produced %q, the documented format is %q", s, TxEncode(fn, want))
	}
	return "", ""
}

// one parser instance serves many inputs, as in a node; results handed out earlier must stay what they were
var sharedCallParser = parsers.NewCallArgsParser()
var sharedDeployParser = parsers.NewDeployArgsParser()
var sharedStorageParser = parsers.NewStorageUpdatesParser()
var sharedBuilder = txDataBuilder.NewBuilder()

// c12Large puts one element of n bytes (deterministic content) into each of the three formats.
func c12Large(n int) (string, string) {
	big := make([]byte, n)
	for i := range big {
		big[i] = byte(i*7 + 3)
	}
	short := func(sig, msg string) (string, string) {
		if len(msg) > 600 {
			msg = msg[:300] + " ... " + msg[len(msg)-200:]
		}
		return sig, sprintf("with one element of %d bytes: %s", n, msg)
	}
	if sig, msg := c12CallRoundTrip("f", [][]byte{{1}, big, {2, 3}}); sig != "" {
		return short(sig, msg)
	}
	if sig, msg := c12DeployRoundTrip(big, []byte{5, 0}, []byte{1, 0}, [][]byte{{1}, {2}}); sig != "" {
		return short(sig, msg)
	}
	if sig, msg := c12StorageRoundTrip([][2][]byte{{[]byte("k1"), {1}}, {[]byte("k2"), big}, {[]byte("k3"), {3}}}); sig != "" {
		return short(sig, msg)
	}
	return "", ""
}

func c12CallRoundTrip(fn string, args [][]byte) (string, string) {
	s := TxEncode(fn, args)
	gotFn, gotArgs, err := sharedCallParser.ParseData(s)
	if err != nil || gotFn != fn || !argsEqual(gotArgs, args) {
		return "callargs/roundtrip", sprintf("ParseData(%q) = (%q, %x, %v), encoded (%q, %x)", s, gotFn, gotArgs, err, fn, args)
	}
	// a second, different parse on the same instance (shorter argument list, upper-case hex, then a failing one)
	if len(args) > 0 {
		_, _, _ = sharedCallParser.ParseData(TxEncode("g", [][]byte{{0xff}, {0xee}}[:1+len(args)%2]))
	}
	up := fn
	for _, a := range args {
		up += "@" + strings.ToUpper(hx(a))
	}
	gotFn2, gotArgs2, err := sharedCallParser.ParseData(up)
	if err != nil || gotFn2 != fn || !argsEqual(gotArgs2, args) {
		return "callargs/roundtrip-uppercase", sprintf("ParseData(%q) = (%q, %x, %v), encoded (%q, %x)", up, gotFn2, gotArgs2, err, fn, args)
	}
	_, _, _ = sharedCallParser.ParseData("h@01@zz")
	if !argsEqual(gotArgs, args) || !argsEqual(gotArgs2, args) {
		return "callargs/result-changed-by-later-parse", sprintf("the arguments returned for %q became %x after later ParseData calls on the same parser", s, gotArgs)
	}
	return "", ""
}

func c12DeployRoundTrip(code, vmType, meta []byte, args [][]byte) (string, string) {
	s := hx(code) + "@" + hx(vmType) + "@" + hx(meta)
	for _, a := range args {
		s += "@" + hx(a)
	}
	d, err := sharedDeployParser.ParseData(s)
	_, _, _, wantMeta, _ := refDeploy(s)
	if err != nil || d == nil || !bytes.Equal(d.Code, code) || !bytes.Equal(d.VMType, vmType) || d.CodeMetadata != wantMeta || !argsEqual(d.Arguments, args) {
		return "deploy/roundtrip", sprintf("deploy ParseData(%q) = (%+v, %v)", s, d, err)
	}
	_, _ = sharedDeployParser.ParseData("aa@0500@0100@ff@ee")
	if !bytes.Equal(d.Code, code) || !bytes.Equal(d.VMType, vmType) || !argsEqual(d.Arguments, args) {
		return "deploy/result-changed-by-later-parse", sprintf("the result returned for %q changed after a later ParseData on the same parser", s)
	}
	return "", ""
}

func c12StorageRoundTrip(pairs [][2][]byte) (string, string) {
	var ups []*vmcommon.StorageUpdate
	for _, p := range pairs {
		ups = append(ups, &vmcommon.StorageUpdate{Offset: p[0], Data: p[1]})
	}
	sp := sharedStorageParser
	var s string
	var back []*vmcommon.StorageUpdate
	var err error
	if p := noPanic(func() { s = sp.CreateDataFromStorageUpdate(ups); back, err = sp.GetStorageUpdates(s) }); p != nil {
		return "storage/panic", sprintf("storage round trip of %x panicked: %v", pairs, p)
	}
	ok := err == nil && len(back) == len(pairs)
	for i := 0; ok && i < len(pairs); i++ {
		ok = bytes.Equal(back[i].Offset, pairs[i][0]) && bytes.Equal(back[i].Data, pairs[i][1])
	}
	if !ok {
		return "storage/roundtrip", sprintf("CreateDataFromStorageUpdate(%x) = %q parses to %d updates, %v", pairs, s, len(back), err)
	}
	_, _ = sp.GetStorageUpdates("ff@ee@dd@cc")
	for i := 0; i < len(pairs); i++ {
		if !bytes.Equal(back[i].Offset, pairs[i][0]) || !bytes.Equal(back[i].Data, pairs[i][1]) {
			return "storage/result-changed-by-later-parse", sprintf("the updates returned for %q changed after a later GetStorageUpdates on the same parser", s)
		}
	}
	if again := sp.CreateDataFromStorageUpdate(back); again != s {
		return "storage/rebuild", sprintf("re-encoding the parse of %q gives %q", s, again)
	}
	return "", ""
}

// ---- ESDT transfer parser totality ----

type tpCase struct {
	Snd  string   `json:"snd"`
	Rcv  string   `json:"rcv"`
	Fn   string   `json:"fn"`
	Args []string `json:"args"`
}

// c12TransferParser: no panic; result xor error; an accepted parse is internally consistent with the arguments.
func c12TransferParser(c *tpCase) (sig string, passedCount bool, msg string) {
	p, _ := parsers.NewESDTTransferParser(&ProtoMarshalizer{})
	args := unhexList(c.Args)
	var res *vmcommon.ParsedESDTTransfers
	var err error
	if pv := noPanic(func() { res, err = p.ParseESDTTransfers(unhx(c.Snd), unhx(c.Rcv), c.Fn, args) }); pv != nil {
		return "transferparser/panic", false, sprintf("ParseESDTTransfers(%s, %d args) panicked: %v", c.Fn, len(args), pv)
	}
	if (err == nil) == (res == nil) {
		return "transferparser/result-and-error", false, sprintf("ParseESDTTransfers = (%v, %v)", res, err)
	}
	if err != nil {
		return "", false, ""
	}
	for i, tr := range res.ESDTTransfers {
		if tr == nil || tr.ESDTValue == nil {
			return "transferparser/nil-entry", true, sprintf("accepted parse has a nil transfer / value at index %d", i)
		}
	}
	return "", true, ""
}

var wrapResidues = func() [][]byte {
	// counts n with 3n+c small modulo 2^64 (3^-1 mod 2^64 = 0xAAAAAAAAAAAAAAAB), powers of two, 9-byte numbers
	inv3 := new(big.Int).SetUint64(0xAAAAAAAAAAAAAAAB)
	mod := new(big.Int).Lsh(big.NewInt(1), 64)
	var out [][]byte
	for t := int64(0); t <= 12; t++ {
		for c := int64(0); c <= 2; c++ {
			n := new(big.Int).Mul(big.NewInt(t-c), inv3)
			n.Mod(n, mod)
			out = append(out, n.Bytes())
		}
	}
	for _, k := range []uint{20, 21, 22, 23, 24, 31, 32, 62, 63} {
		out = append(out, new(big.Int).Lsh(big.NewInt(1), k).Bytes())
	}
	out = append(out, []byte{1, 0, 0, 0, 0, 0, 0, 0, 1}, []byte{1, 0, 0, 0, 0, 0, 0, 0, 2}, bytes.Repeat([]byte{0xff}, 8), bytes.Repeat([]byte{0xff}, 9),
		[]byte{0x55, 0x55, 0x55, 0x55, 0x55, 0x55, 0x55, 0x55}, []byte{0x55, 0x55, 0x55, 0x55, 0x55, 0x55, 0x55, 0x56})
	return out
}()

func genTPCase(t *rapid.T) *tpCase {
	addrA, addrB := bytes.Repeat([]byte{1}, 32), bytes.Repeat([]byte{2}, 32)
	c := &tpCase{Snd: hx(addrA)}
	atSender := rapid.Bool().Draw(t, "atsender")
	if atSender {
		c.Rcv = c.Snd
	} else {
		c.Rcv = hx(addrB)
	}
	c.Fn = rapid.SampledFrom([]string{"MultiESDTNFTTransfer", "MultiESDTNFTTransfer", "ESDTNFTTransfer", "ESDTTransfer", "ESDTBurn", ""}).Draw(t, "fn")
	validPayload := RefEncodeToken(&RefToken{Type: 1, Value: big.NewInt(3), Meta: &RefMeta{Nonce: 7, Name: []byte("n")}})
	noValuePayload := []byte{0x08, 0x01}
	item := func(label string) []byte {
		switch rapid.IntRange(0, 9).Draw(t, label) {
		case 0:
			return []byte{}
		case 1:
			return []byte{0}
		case 2:
			return []byte{1}
		case 3:
			return rapid.SampledFrom(wrapResidues).Draw(t, label+"res")
		case 4:
			return validPayload
		case 5:
			return validPayload[:rapid.IntRange(0, len(validPayload)).Draw(t, label+"cut")]
		case 6:
			return noValuePayload
		case 7:
			return []byte("TOK-123456")
		case 8:
			return addrB
		default:
			return rapid.SliceOfN(rapid.Byte(), 0, 9).Draw(t, label+"rnd")
		}
	}
	// structured: a count, then triples, so that the length test is frequently passed
	var args [][]byte
	if c.Fn == "MultiESDTNFTTransfer" && rapid.IntRange(0, 3).Draw(t, "structured") > 0 {
		n := rapid.IntRange(0, 3).Draw(t, "ntok")
		if atSender {
			args = append(args, addrB)
		}
		cnt := big.NewInt(int64(n)).Bytes()
		switch rapid.IntRange(0, 5).Draw(t, "cntkind") {
		case 0:
			cnt = rapid.SampledFrom(wrapResidues).Draw(t, "cntres")
		case 1:
			cnt = append([]byte{1, 0, 0, 0, 0, 0, 0, 0}, byte(n)) // 9 bytes, low 64 bits = n
		}
		args = append(args, cnt)
		for i := 0; i < n; i++ {
			nonce := rapid.SampledFrom([][]byte{{}, {0}, {1}, {7}, {0, 7}}).Draw(t, "nonce")
			args = append(args, []byte("TOK-123456"), nonce, item("val"))
		}
		extra := rapid.IntRange(0, 2).Draw(t, "extra")
		for i := 0; i < extra; i++ {
			args = append(args, item("extra"))
		}
	} else {
		n := rapid.IntRange(0, 9).Draw(t, "nargs")
		for i := 0; i < n; i++ {
			args = append(args, item("arg"))
		}
	}
	c.Args = hexList(args)
	return c
}

func TestC12(t *testing.T) {
	st := NewStats("C12")
	defer finish(t, st)
	known := LoadKnown("C12")

	// (i) every string up to the bound over {letter, '@', hex digits in both cases, non-hex}
	alphabet := []byte{'f', '@', '0', 'a', 'g', 'A'}
	maxLen := EnvInt("VERIF_C12_MAXLEN", 6)
	idx := 0
	var rec func(prefix []byte)
	rec = func(prefix []byte) {
		idx++
		if mine(idx) {
			s := string(prefix)
			st.Eval(3)
			sig, acc, msg := c12String(s)
			if acc || (strings.Contains(s, "@") && sig == "") {
				st.NTEnumerated(1)
			}
			if acc {
				st.Label("string/accepted-by-some-parser")
			}
			if idx%40009 == 0 {
				st.Sample("string", s)
			}
			if sig != "" {
				if known[sig] {
					st.KnownHit(sig)
				} else {
					failPlain(t, st, "C12", "string", s, sig, msg)
				}
			}
		}
		if len(prefix) == maxLen {
			return
		}
		for _, a := range alphabet {
			rec(append(prefix, a))
		}
	}
	rec(nil)
	st.Exhaustive = append(st.Exhaustive, sprintf("call-args, deploy-args and storage-updates parsers on every string of length 0..%d over {f,@,0,a,g,A}", maxLen))

	// size is no concern of a tokenizer: one element of 4 KiB .. 100 kB (a contract's code is routinely above 32 KiB,
	// i.e. above 64 KiB of hex) in each of the three formats
	for i, n := range []int{4095, 4096, 4097, 16384, 32767, 32768, 32769, 65535, 65536, 65537, 100000} {
		if !mine(i) {
			continue
		}
		st.Eval(3)
		st.NTEnumerated(3)
		st.Label("roundtrip/large-element")
		if sig, msg := c12Large(n); sig != "" {
			failPlain(t, st, "C12", "large-element", n, sig, msg)
		}
	}
	st.Exhaustive = append(st.Exhaustive, "one element of 4095, 4096, 4097, 16384, 32767, 32768, 32769, 65535, 65536, 65537 and 100000 bytes in call data, deploy data and a storage-update list")

	rapid.Check(t, func(rt *rapid.T) {
		report := func(kind string, payload interface{}, sig, msg string) {
			if known[sig] {
				st.KnownHit(sig)
				return
			}
			failRapid(rt, st, "C12", kind, payload, sig, msg)
		}
		// (ii) longer random strings over a richer alphabet
		s := rapid.StringOfN(rapid.SampledFrom([]rune("@@@0123456789abcdefABCDEFgxyz_ ")), 0, 40, -1).Draw(rt, "str")
		st.Eval(3)
		if sig, acc, msg := c12String(s); sig != "" {
			report("string", s, sig, msg)
		} else if acc || strings.Contains(s, "@") {
			st.NT("str:" + s)
		}

		// (iv) round trips
		fn := rapid.StringOfN(rapid.SampledFrom([]rune("abcXYZ09_-. !#")), 1, 12, -1).Draw(rt, "fn")
		if rapid.IntRange(0, 2).Draw(rt, "fn-raw") == 0 {
			// any bytes except '@' are a function name: 4-byte selectors, invalid UTF-8, control bytes
			raw := rapid.SliceOfN(rapid.Byte(), 1, 8).Draw(rt, "fn-bytes")
			for i := range raw {
				if raw[i] == '@' {
					raw[i] = 'A'
				}
			}
			fn = string(raw)
		}
		nargs := rapid.IntRange(0, 6).Draw(rt, "nargs")
		args := make([][]byte, nargs)
		for i := range args {
			switch rapid.IntRange(0, 4).Draw(rt, "argkind") {
			case 0:
				args[i] = []byte{}
			case 1:
				args[i] = []byte{0}
			case 2:
				args[i] = rapid.SampledFrom(wrapResidues).Draw(rt, "residue")
			default:
				args[i] = rapid.SliceOfN(rapid.Byte(), 0, 20).Draw(rt, "argbytes")
			}
		}
		st.Eval(1)
		st.NT("call:" + TxEncode(fn, args))
		st.Label(sprintf("roundtrip/call/nargs=%d", nargs))
		if sig, msg := c12CallRoundTrip(fn, args); sig != "" {
			report("call-roundtrip", map[string]interface{}{"fn": fn, "args": hexList(args)}, sig, msg)
		}
		var ops []builderOp
		nops := rapid.IntRange(0, 6).Draw(rt, "nops")
		for i := 0; i < nops; i++ {
			switch rapid.IntRange(0, 6).Draw(rt, "opkind") {
			case 0:
				ops = append(ops, builderOp{Kind: "bytes", Hex: hx(rapid.SliceOfN(rapid.Byte(), 0, 12).Draw(rt, "b"))})
			case 1:
				ops = append(ops, builderOp{Kind: "str", Hex: hx([]byte(rapid.StringN(0, 8, -1).Draw(rt, "s")))})
			case 2:
				ops = append(ops, builderOp{Kind: "int", Int: int64(rapid.IntRange(0, 1<<40).Draw(rt, "i"))})
			case 3:
				ops = append(ops, builderOp{Kind: "int64", Int: rapid.Int64Range(0, 1<<62).Draw(rt, "i64")})
			case 4:
				ops = append(ops, builderOp{Kind: "bigint", Big: new(big.Int).SetBytes(rapid.SliceOfN(rapid.Byte(), 0, 20).Draw(rt, "big")).String()})
			case 5:
				ops = append(ops, builderOp{Kind: "byte", Int: int64(rapid.Byte().Draw(rt, "byte"))})
			default:
				ops = append(ops, builderOp{Kind: "bool", Bool: rapid.Bool().Draw(rt, "bool")})
			}
		}
		st.Eval(1)
		if sig, msg := c12Builder(fn, ops); sig != "" {
			report("builder", map[string]interface{}{"fn": fn, "ops": ops}, sig, msg)
		}
		code := rapid.SliceOfN(rapid.Byte(), 1, 12).Draw(rt, "code")
		vmType := rapid.SliceOfN(rapid.Byte(), 1, 3).Draw(rt, "vmtype")
		meta := rapid.SliceOfN(rapid.Byte(), 0, 3).Draw(rt, "meta")
		st.Eval(1)
		if sig, msg := c12DeployRoundTrip(code, vmType, meta, args); sig != "" {
			report("deploy-roundtrip", map[string]interface{}{"code": hx(code), "vm": hx(vmType), "meta": hx(meta), "args": hexList(args)}, sig, msg)
		}
		npairs := rapid.IntRange(1, 4).Draw(rt, "npairs")
		pairs := make([][2][]byte, npairs)
		var pj [][2]string
		for i := range pairs {
			minKey := 0
			if i == 0 {
				minKey = 1
			}
			pairs[i] = [2][]byte{rapid.SliceOfN(rapid.Byte(), minKey, 8).Draw(rt, "off"), rapid.SliceOfN(rapid.Byte(), 0, 8).Draw(rt, "dat")}
			pj = append(pj, [2]string{hx(pairs[i][0]), hx(pairs[i][1])})
		}
		st.Eval(1)
		if sig, msg := c12StorageRoundTrip(pairs); sig != "" {
			report("storage-roundtrip", pj, sig, msg)
		}

		// (iii) ESDT transfer parser
		for k := 0; k < 3; k++ {
			c := genTPCase(rt)
			st.Eval(1)
			sig, passed, msg := c12TransferParser(c)
			if passed {
				js, _ := json.Marshal(c)
				st.NT("tp:" + string(js))
				st.Label("transferparser/accepted/" + c.Fn)
			} else {
				st.Label("transferparser/rejected")
			}
			st.Sample("transfer-parser", c)
			if sig != "" {
				report("transfer-parser", c, sig, msg)
			}
		}
	})

	// (v) the built-in functions' own message encoder, on generated histories: every emitted data string, and every
	// attached call continued on the executing shard, must parse to exactly what was encoded
	runHistories(t, historyCfg{prop: "C12", weights: c12EngineWeights, minSteps: 8, maxSteps: 40, stats: st, nontrivial: func(rec *CallRecord, g *Gen) (string, bool) {
		if !rec.Res.OK() || rec.Res.Out == nil {
			return "", false
		}
		for _, oa := range rec.Res.Out.OutputAccounts {
			if oa == nil {
				continue
			}
			for _, ot := range oa.OutputTransfers {
				if len(ot.Data) > 0 {
					return sprintf("emitted|%s|%s|nargs=%d|%s", rec.Call.Fn, rec.V.Side, len(rec.Call.Args), shapeKey(g)), true
				}
			}
		}
		return "", false
	}})
}

// c12EngineWeights: histories rich in transfers with attached calls, whose emitted data strings (the built-in
// functions' own message encoder) must parse to what was encoded.
var c12EngineWeights = baseWeights.with(Weights{"transfer": 16, "nfttransfer": 12, "multi": 14, "deliver": 22, "issue": 8, "create": 9, "setrole": 7, "setusername": 4, "handover": 4, "burn": 3,
	"mutate": 4, "unstructured": 1, "skv": 0, "gas": 0, "epoch": 0, "changeowner": 0, "claim": 0})

func replayC12(kind string, raw json.RawMessage) (string, string) {
	if kind == "history" {
		return replayHistory([]string{"C12"}, nil)(kind, raw)
	}
	switch kind {
	case "string":
		var s string
		_ = json.Unmarshal(raw, &s)
		sig, _, msg := c12String(s)
		return sig, msg
	case "call-roundtrip":
		var m struct {
			Fn   string   `json:"fn"`
			Args []string `json:"args"`
		}
		_ = json.Unmarshal(raw, &m)
		return c12CallRoundTrip(m.Fn, unhexList(m.Args))
	case "builder":
		var m struct {
			Fn  string      `json:"fn"`
			Ops []builderOp `json:"ops"`
		}
		_ = json.Unmarshal(raw, &m)
		return c12Builder(m.Fn, m.Ops)
	case "deploy-roundtrip":
		var m struct {
			Code, VM, Meta string
			Args           []string
		}
		_ = json.Unmarshal(raw, &m)
		return c12DeployRoundTrip(unhx(m.Code), unhx(m.VM), unhx(m.Meta), unhexList(m.Args))
	case "storage-roundtrip":
		var pj [][2]string
		_ = json.Unmarshal(raw, &pj)
		var pairs [][2][]byte
		for _, p := range pj {
			pairs = append(pairs, [2][]byte{unhx(p[0]), unhx(p[1])})
		}
		return c12StorageRoundTrip(pairs)
	case "large-element":
		var n int
		_ = json.Unmarshal(raw, &n)
		return c12Large(n)
	case "transfer-parser":
		var c tpCase
		_ = json.Unmarshal(raw, &c)
		sig, _, msg := c12TransferParser(&c)
		return sig, msg
	}
	return "replay/unknown-kind", kind
}

func init() { replayers["C12"] = replayC12 }
