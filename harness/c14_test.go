package harness

// C14 — token-data serialisation is lossless, canonical and format-stable.
// Oracle: the independent reference encoder/decoder of wire.go (written from esdt.proto and the protobuf wire format).

import (
	"bytes"
	"encoding/json"
	"math/big"
	"testing"

	"github.com/ElrondNetwork/elrond-vm-common/data"
	"github.com/ElrondNetwork/elrond-vm-common/data/esdt"
	"pgregory.net/rapid"
)

// ---- JSON-able structured case ----

type metaCase struct {
	Nonce      uint64   `json:"nonce"`
	Name       *string  `json:"name"`
	Creator    *string  `json:"creator"`
	Royalties  uint32   `json:"royalties"`
	Hash       *string  `json:"hash"`
	URIs       []string `json:"uris"`
	NilURIs    bool     `json:"nil_uris"`
	Attributes *string  `json:"attributes"`
}

type tokenCase struct {
	Type       uint32    `json:"type"`
	Value      *string   `json:"value"` // decimal, nil = absent
	Properties *string   `json:"properties"`
	Meta       *metaCase `json:"meta"`
	Reserved   *string   `json:"reserved"`
}

func (c *metaCase) impl() *esdt.MetaData {
	m := &esdt.MetaData{Nonce: c.Nonce, Name: optBytes(c.Name), Creator: optBytes(c.Creator), Royalties: c.Royalties, Hash: optBytes(c.Hash), Attributes: optBytes(c.Attributes)}
	if !c.NilURIs {
		m.URIs = [][]byte{}
		for _, u := range c.URIs {
			m.URIs = append(m.URIs, unhx(u))
		}
	}
	return m
}

func (c *metaCase) ref() *RefMeta {
	m := &RefMeta{Nonce: c.Nonce, Name: optBytes(c.Name), Creator: optBytes(c.Creator), Royalties: c.Royalties, Hash: optBytes(c.Hash), Attributes: optBytes(c.Attributes)}
	if !c.NilURIs {
		for _, u := range c.URIs {
			m.URIs = append(m.URIs, unhx(u))
		}
	}
	return m
}

func (c *tokenCase) impl() *esdt.ESDigitalToken {
	t := &esdt.ESDigitalToken{Type: c.Type, Value: optBig(c.Value), Properties: optBytes(c.Properties), Reserved: optBytes(c.Reserved)}
	if c.Meta != nil {
		t.TokenMetaData = c.Meta.impl()
	}
	return t
}

func (c *tokenCase) ref() *RefToken {
	t := &RefToken{Type: c.Type, Value: optBig(c.Value), Properties: optBytes(c.Properties), Reserved: optBytes(c.Reserved)}
	if c.Meta != nil {
		t.Meta = c.Meta.ref()
	}
	return t
}

func implMetaToRef(m *esdt.MetaData) *RefMeta {
	if m == nil {
		return nil
	}
	return &RefMeta{Nonce: m.Nonce, Name: m.Name, Creator: m.Creator, Royalties: m.Royalties, Hash: m.Hash, URIs: m.URIs, Attributes: m.Attributes}
}

func implTokenToRef(t *esdt.ESDigitalToken) *RefToken {
	return &RefToken{Type: t.Type, Value: t.Value, Properties: t.Properties, Meta: implMetaToRef(t.TokenMetaData), Reserved: t.Reserved}
}

// ---- oracles ----

// c14Amount checks the amount codec on one value: size, encoding into clean and dirty buffers, decoding.
func c14Amount(v *big.Int, dirty bool) (string, string) {
	c := &data.BigIntCaster{}
	want := RefEncodeAmount(v)
	var size, n int
	var err error
	fill := byte(0)
	if dirty {
		fill = 0xAA
	}
	buf := bytes.Repeat([]byte{fill}, len(want)+3) // the generated code passes a buffer that extends past the field
	if p := noPanic(func() { size = c.Size(v); n, err = c.MarshalTo(v, buf) }); p != nil {
		return "amount/panic", sprintf("Size/MarshalTo(%v) panicked: %v", v, p)
	}
	if size != len(want) {
		return "amount/size", sprintf("Size(%v) = %d, documented encoding %x has %d bytes", v, size, want, len(want))
	}
	if err != nil || n != len(want) {
		return "amount/marshal-length", sprintf("MarshalTo(%v) = %d, %v; want %d bytes", v, n, err, len(want))
	}
	if !bytes.Equal(buf[:n], want) {
		if dirty {
			return "amount/marshal-dirty-buffer", sprintf("MarshalTo(%v) into a non-zeroed buffer wrote %x, documented encoding is %x", v, buf[:n], want)
		}
		return "amount/marshal-bytes", sprintf("MarshalTo(%v) wrote %x, documented encoding is %x", v, buf[:n], want)
	}
	if !allEq(buf[n:], fill) {
		return "amount/marshal-overrun", sprintf("MarshalTo(%v) wrote past its %d bytes: %x", v, n, buf)
	}
	var back *big.Int
	if p := noPanic(func() { back, err = c.Unmarshal(want) }); p != nil {
		return "amount/panic", sprintf("Unmarshal(%x) panicked: %v", want, p)
	}
	if err != nil || !bigEq(back, v) {
		return "amount/roundtrip", sprintf("Unmarshal(%x) = %v, %v; want %v", want, back, err, v)
	}
	// decoded values belong to the caller (the library itself adds to decoded amounts in place): changing one must not
	// change what the same bytes decode to next time
	if back != nil {
		back.Add(back, big.NewInt(5))
		again, err2 := c.Unmarshal(want)
		if err2 != nil || !bigEq(again, v) {
			return "amount/decoded-value-shared", sprintf("after modifying the value decoded from %x, decoding the same bytes again gives %v (want %v)", want, again, v)
		}
	}
	return "", ""
}

// c14LengthBoundaries feeds every decoder inputs whose length prefixes sit at integer boundaries.
func c14LengthBoundaries(visit func(b []byte)) {
	var lens [][]byte
	for _, v := range []uint64{0, 1, 0x7f, 0x80, 1<<31 - 1, 1 << 31, 1<<32 - 1, 1 << 32, 1<<63 - 9, 1<<63 - 2, 1<<63 - 1, 1 << 63, 1<<64 - 1} {
		lens = append(lens, putVarint(nil, v))
	}
	lens = append(lens, bytes.Repeat([]byte{0xff}, 10), append(bytes.Repeat([]byte{0xff}, 9), 0x01), append(bytes.Repeat([]byte{0x80}, 9), 0x00))
	tails := [][]byte{{}, {0x00}, {0x00, 0x05, 0x01}}
	for tag := byte(1); tag <= 8; tag++ {
		for _, wt := range []byte{0, 2} {
			for _, l := range lens {
				for _, tail := range tails {
					in := append(append([]byte{tag<<3 | wt}, l...), tail...)
					visit(in)
					// the same field nested in the metadata sub-message of a token
					visit(append(append([]byte{0x12, 0x02, 0x00, 0x01, 0x22}, putVarint(nil, uint64(len(in)))...), in...))
					visit(append([]byte{0x08, 0x01}, in...))
				}
			}
		}
	}
}

// c14AmountDecode checks decoding of an arbitrary buffer.
func c14AmountDecode(b []byte) (string, bool, string) {
	c := &data.BigIntCaster{}
	var v *big.Int
	var err error
	if p := noPanic(func() { v, err = c.Unmarshal(b) }); p != nil {
		return "amount/decode-panic", false, sprintf("Unmarshal(%x) panicked: %v", b, p)
	}
	ref, rerr := RefDecodeAmount(b)
	if rerr == nil && bytes.Equal(RefEncodeAmount(ref), b) {
		// b is THE documented encoding of ref (canonical): it must decode to it.  Non-canonical buffers (leading zero
		// bytes in the magnitude, a signed zero) may be accepted or refused.
		if err != nil || !bigEq(v, ref) {
			return "amount/decode-value", false, sprintf("Unmarshal(%x) = %v, %v; the documented format says %v", b, v, err, ref)
		}
	}
	if err != nil {
		if v != nil {
			return "amount/decode-value-and-error", false, sprintf("Unmarshal(%x) returned both %v and %v", b, v, err)
		}
		return "", false, ""
	}
	// accepted: re-encoding and re-decoding is a fixed point
	again, err2 := c.Unmarshal(RefEncodeAmount(v))
	if err2 != nil || !bigEq(again, v) {
		return "amount/decode-fixed-point", true, sprintf("Unmarshal(%x) = %v but re-encoding and decoding gives %v, %v", b, v, again, err2)
	}
	if c.Size(v) != len(RefEncodeAmount(v)) {
		return "amount/size", true, sprintf("Size(%v) = %d", v, c.Size(v))
	}
	return "", true, ""
}

func prodUnmarshal(o protoObj, b []byte) error { o.Reset(); return o.Unmarshal(b) }

// c14Token checks one structured token value through Marshal / Size / MarshalTo / Unmarshal.
func c14Token(tc *tokenCase) (string, string) {
	want := RefEncodeToken(tc.ref())
	x := tc.impl()
	var got, got2 []byte
	var err error
	var size int
	if p := noPanic(func() { got, err = x.Marshal(); size = x.Size(); got2, _ = tc.impl().Marshal() }); p != nil {
		return "token/panic", sprintf("Marshal panicked: %v", p)
	}
	if err != nil {
		return "token/marshal-error", sprintf("Marshal failed: %v", err)
	}
	if !bytes.Equal(got, want) {
		return "token/wire-format", sprintf("Marshal = %x, documented wire format gives %x", got, want)
	}
	if size != len(got) {
		return "token/size", sprintf("Size = %d, encoded length %d", size, len(got))
	}
	if !bytes.Equal(got, got2) {
		return "token/nondeterministic", sprintf("two encodings differ: %x vs %x", got, got2)
	}
	// MarshalTo into a clean, exactly sized buffer
	clean := make([]byte, size)
	if n, e := x.MarshalTo(clean); e != nil || n != size || !bytes.Equal(clean, want) {
		return "token/marshalto", sprintf("MarshalTo(clean) = %d, %v, %x; want %x", n, e, clean, want)
	}
	back := &esdt.ESDigitalToken{Type: 77, Properties: []byte("stale"), Reserved: []byte("stale"), TokenMetaData: &esdt.MetaData{Name: []byte("stale")}}
	if p := noPanic(func() { err = prodUnmarshal(back, got) }); p != nil {
		return "token/panic", sprintf("Unmarshal(%x) panicked: %v", got, p)
	}
	if err != nil {
		return "token/roundtrip-error", sprintf("Unmarshal(Marshal(x)) failed: %v (bytes %x)", err, got)
	}
	if !implTokenToRef(back).Equal(tc.ref()) {
		return "token/roundtrip", sprintf("Unmarshal(Marshal(x)) = %+v (meta %v), want %+v (meta %v)", back, implMetaToRef(back.TokenMetaData), tc.ref(), tc.ref().Meta)
	}
	rd, rerr := RefDecodeToken(got)
	if rerr != nil || !rd.Equal(tc.ref()) {
		return "token/ref-decode", sprintf("the encoding %x does not decode to the value under the documented format (%v)", got, rerr)
	}
	// the encoding is a function of the VALUE: the same object, its amount changed in place (as the ledger code does
	// with Sub / Add / Set on the decoded amount), encodes like a fresh object holding the new amount
	if x.Value != nil {
		orig := new(big.Int).Set(x.Value)
		for _, nv := range []*big.Int{new(big.Int).Rsh(orig, 8), new(big.Int).Add(new(big.Int).Lsh(orig, 8), big.NewInt(1)), new(big.Int).Add(orig, big.NewInt(1)), big.NewInt(1), new(big.Int).Lsh(big.NewInt(1), 64), new(big.Int)} {
			x.Value.Set(nv)
			r := tc.ref()
			r.Value = nv
			want2 := RefEncodeToken(r)
			var got3 []byte
			var size3 int
			if p := noPanic(func() { got3, err = x.Marshal(); size3 = x.Size() }); p != nil {
				return "token/panic", sprintf("Marshal after an in-place change of the amount panicked: %v", p)
			}
			if err != nil || !bytes.Equal(got3, want2) || size3 != len(want2) {
				return "token/stale-after-in-place-change", sprintf("amount changed in place from %v to %v: Marshal = %x (%v), Size = %d; the documented format gives %x", orig, nv, got3, err, size3, want2)
			}
		}
		x.Value.Set(orig)
	}
	return "", ""
}

// c14TokenDirty is the separately labelled probe: MarshalTo into a non-zeroed buffer.
func c14TokenDirty(tc *tokenCase) (string, string) {
	x := tc.impl()
	want := RefEncodeToken(tc.ref())
	dirty := bytes.Repeat([]byte{0xAA}, x.Size())
	var n int
	var err error
	if p := noPanic(func() { n, err = x.MarshalTo(dirty) }); p != nil {
		return "token/panic", sprintf("MarshalTo panicked: %v", p)
	}
	if err != nil || n != len(want) || !bytes.Equal(dirty[:n], want) {
		return "token/marshalto-dirty-buffer", sprintf("MarshalTo into a non-zeroed buffer = %x (%d, %v); want %x", dirty, n, err, want)
	}
	return "", ""
}

func c14Meta(mc *metaCase) (string, string) {
	want := RefEncodeMeta(mc.ref())
	x := mc.impl()
	got, err := x.Marshal()
	if err != nil || !bytes.Equal(got, want) {
		return "meta/wire-format", sprintf("Marshal = %x, %v; documented wire format gives %x", got, err, want)
	}
	if x.Size() != len(got) {
		return "meta/size", sprintf("Size = %d, encoded length %d", x.Size(), len(got))
	}
	back := &esdt.MetaData{Name: []byte("stale"), URIs: [][]byte{[]byte("stale")}}
	if err = prodUnmarshal(back, got); err != nil || !implMetaToRef(back).Equal(mc.ref()) {
		return "meta/roundtrip", sprintf("Unmarshal(Marshal(x)) = %v, %v; want %v", implMetaToRef(back), err, mc.ref())
	}
	return "", ""
}

func c14Roles(roles []string, nilList bool) (string, string) {
	var rs [][]byte
	if !nilList {
		rs = [][]byte{}
	}
	for _, r := range roles {
		rs = append(rs, unhx(r))
	}
	want := RefEncodeRoles(rs)
	x := &esdt.ESDTRoles{Roles: rs}
	got, err := x.Marshal()
	if err != nil || !bytes.Equal(got, want) {
		return "roles/wire-format", sprintf("Marshal = %x, %v; documented wire format gives %x", got, err, want)
	}
	if x.Size() != len(got) {
		return "roles/size", sprintf("Size = %d, encoded length %d", x.Size(), len(got))
	}
	back := &esdt.ESDTRoles{Roles: [][]byte{[]byte("stale")}}
	if err = prodUnmarshal(back, got); err != nil || len(back.Roles) != len(rs) {
		return "roles/roundtrip", sprintf("Unmarshal(Marshal(%x)) = %x, %v", rs, back.Roles, err)
	}
	for i := range rs {
		if !bytes.Equal(rs[i], back.Roles[i]) {
			return "roles/roundtrip", sprintf("role %d: %x became %x", i, rs[i], back.Roles[i])
		}
	}
	return "", ""
}

// c14Decode feeds arbitrary bytes to the three decoders: no panic, and an accepted input re-encodes to a fixed point.
func c14Decode(b []byte) (sig string, accepted bool, msg string) {
	type obj struct {
		name string
		mk   func() protoObj
	}
	for _, o := range []obj{
		{"token", func() protoObj { return &esdt.ESDigitalToken{} }},
		{"roles", func() protoObj { return &esdt.ESDTRoles{} }},
		{"meta", func() protoObj { return &esdt.MetaData{} }},
	} {
		x := o.mk()
		var err error
		if p := noPanic(func() { err = prodUnmarshal(x, b) }); p != nil {
			return o.name + "/decode-panic", false, sprintf("Unmarshal(%x) panicked: %v", b, p)
		}
		if err != nil {
			continue
		}
		accepted = true
		var e1, e2 []byte
		y := o.mk()
		if p := noPanic(func() {
			e1, err = x.Marshal()
			if err == nil {
				err = prodUnmarshal(y, e1)
			}
			if err == nil {
				e2, err = y.Marshal()
			}
		}); p != nil {
			return o.name + "/decode-panic", true, sprintf("re-encoding the value decoded from %x panicked: %v", b, p)
		}
		if err != nil {
			return o.name + "/decode-fixed-point", true, sprintf("the value decoded from %x does not survive re-encoding: %v", b, err)
		}
		if !bytes.Equal(e1, e2) {
			return o.name + "/decode-fixed-point", true, sprintf("decode(%x) re-encodes to %x, then to %x", b, e1, e2)
		}
		if sz, ok := x.(interface{ Size() int }); ok && sz.Size() != len(e1) {
			return o.name + "/size", true, sprintf("Size = %d but the encoding of the value decoded from %x has %d bytes", sz.Size(), b, len(e1))
		}
	}
	return "", accepted, ""
}

// ---- generators ----

var c14Bigs = []string{"0", "1", "-1", "127", "128", "255", "-255", "256", "-256", "65535", "18446744073709551615", "18446744073709551616", "-18446744073709551616"}

func genBigStr(t *rapid.T, label string) *string {
	k := rapid.IntRange(0, len(c14Bigs)+3).Draw(t, label)
	switch {
	case k < len(c14Bigs):
		return &c14Bigs[k]
	case k == len(c14Bigs):
		return nil
	case k == len(c14Bigs)+1:
		// huge amounts: around the point where the length prefix of the amount needs a second varint byte (127/128 bytes)
		v := new(big.Int).Lsh(big.NewInt(1), uint(rapid.SampledFrom([]int{800, 1000, 1007, 1008, 1015, 1016, 1024, 2000, 16376}).Draw(t, label+"shift")))
		if rapid.Bool().Draw(t, label+"minus1") {
			v.Sub(v, big.NewInt(1))
		}
		if rapid.Bool().Draw(t, label+"neg") {
			v.Neg(v)
		}
		s := v.String()
		return &s
	default:
		bs := rapid.SliceOfN(rapid.Byte(), 1, 40).Draw(t, label+"bytes")
		v := new(big.Int).SetBytes(bs)
		if rapid.Bool().Draw(t, label+"neg") {
			v.Neg(v)
		}
		s := v.String()
		return &s
	}
}

func genOptField(t *rapid.T, label string) *string {
	switch rapid.IntRange(0, 5).Draw(t, label) {
	case 0:
		return nil
	case 1:
		s := ""
		return &s
	case 2:
		s := hx(bytes.Repeat([]byte{0x5a}, 300))
		return &s
	case 3:
		s := hx([]byte{0})
		return &s
	default:
		s := hx(rapid.SliceOfN(rapid.Byte(), 1, 12).Draw(t, label+"b"))
		return &s
	}
}

func genMetaCase(t *rapid.T, label string) *metaCase {
	m := &metaCase{
		Nonce: rapid.SampledFrom([]uint64{0, 1, 127, 128, 16383, 16384, 1<<32 - 1, 1 << 32, 1 << 63, ^uint64(0)}).Draw(t, label+"nonce"),
		Name:  genOptField(t, label+"name"), Creator: genOptField(t, label+"creator"), Hash: genOptField(t, label+"hash"), Attributes: genOptField(t, label+"attrs"),
		Royalties: rapid.SampledFrom([]uint32{0, 1, 127, 128, 9999, 10000, 10001, 1<<32 - 1}).Draw(t, label+"roy"),
		NilURIs:   rapid.Bool().Draw(t, label+"niluris"),
	}
	if !m.NilURIs {
		n := rapid.IntRange(0, 3).Draw(t, label+"nuris")
		for i := 0; i < n; i++ {
			u := genOptField(t, label+"uri")
			if u == nil {
				m.URIs = append(m.URIs, "")
			} else {
				m.URIs = append(m.URIs, *u)
			}
		}
	}
	return m
}

func genTokenCase(t *rapid.T) *tokenCase {
	tc := &tokenCase{
		Type:       rapid.SampledFrom([]uint32{0, 0, 1, 1, 2, 127, 128, 16384, 1<<32 - 1}).Draw(t, "type"),
		Value:      genBigStr(t, "value"),
		Properties: genOptField(t, "props"), Reserved: genOptField(t, "reserved"),
	}
	if rapid.Bool().Draw(t, "hasmeta") {
		tc.Meta = genMetaCase(t, "meta.")
	}
	return tc
}

func nonDefaultToken(tc *tokenCase) bool {
	return tc.Type != 0 || (tc.Value != nil && *tc.Value != "0") || (tc.Properties != nil && *tc.Properties != "") || tc.Meta != nil || (tc.Reserved != nil && *tc.Reserved != "")
}

// knownC14 is filled from KNOWN_FINDINGS.txt by the driver-facing helper; signatures listed there are reported as
// known findings instead of violations.
func TestC14(t *testing.T) {
	st := NewStats("C14")
	defer finish(t, st)
	known := LoadKnown("C14")

	report := func(kind string, payload interface{}, sig, msg string) {
		if known[sig] {
			st.mu.Lock()
			st.Known[sig]++
			st.mu.Unlock()
			return
		}
		failPlain(t, st, "C14", kind, payload, sig, msg)
	}

	// (i-a) amount decoder: every buffer up to the bound, sharded
	maxLen := 2
	if Thorough() {
		maxLen = 3
	}
	idx := 0
	var buf [3]byte
	for l := 0; l <= maxLen; l++ {
		total := 1 << (8 * uint(l))
		for v := 0; v < total; v++ {
			idx++
			if !mine(idx) {
				continue
			}
			for i := 0; i < l; i++ {
				buf[i] = byte(v >> (8 * uint(i)))
			}
			b := append([]byte{}, buf[:l]...)
			st.Eval(1)
			sig, acc, msg := c14AmountDecode(b)
			if acc {
				st.NTEnumerated(1)
			}
			if sig != "" {
				report("amount-bytes", hx(b), sig, msg)
			}
		}
	}
	st.Exhaustive = append(st.Exhaustive, sprintf("amount decoder: every buffer of length 0..%d", maxLen))

	// (i-b) amount encoder on boundary values, clean and dirty buffers
	var vals []*big.Int
	vals = append(vals, nil)
	for _, s := range c14Bigs {
		v, _ := new(big.Int).SetString(s, 10)
		vals = append(vals, v)
	}
	for _, sh := range []uint{8, 63, 64, 65, 800, 1000, 1008, 1016, 1024, 2000, 16384} {
		v := new(big.Int).Lsh(big.NewInt(1), sh)
		vals = append(vals, v, new(big.Int).Neg(v), new(big.Int).Sub(v, big.NewInt(1)))
	}
	for _, v := range vals {
		for _, dirty := range []bool{false, true} {
			st.Eval(1)
			st.Label(sprintf("amount-encode/dirty=%v", dirty))
			if sig, msg := c14Amount(v, dirty); sig != "" {
				var s *string
				if v != nil {
					x := v.String()
					s = &x
				}
				report("amount-value", map[string]interface{}{"value": s, "dirty": dirty}, sig, msg)
			}
		}
	}

	// (i-c) length prefixes at integer boundaries, through all three decoders
	nb := 0
	c14LengthBoundaries(func(b []byte) {
		nb++
		st.Eval(1)
		sig, acc, msg := c14Decode(b)
		if acc {
			st.NTEnumerated(1)
		}
		if sig != "" {
			report("bytes", hx(b), sig, msg)
		}
	})
	st.Exhaustive = append(st.Exhaustive, sprintf("%d inputs with boundary length prefixes / varints (0, 0x7f, 0x80, 2^31-1..2^32, 2^63-9..2^64-1, over-long varints) for every field number 1..8, top-level and nested", nb))

	// (ii)+(iii) generated structured values, arbitrary bytes and mutated encodings
	rapid.Check(t, func(rt *rapid.T) {
		rreport := func(kind string, payload interface{}, sig, msg string) {
			if known[sig] {
				st.mu.Lock()
				st.Known[sig]++
				st.mu.Unlock()
				return
			}
			failRapid(rt, st, "C14", kind, payload, sig, msg)
		}
		tc := genTokenCase(rt)
		st.Eval(1)
		if nonDefaultToken(tc) {
			js, _ := json.Marshal(tc)
			st.NT("token:" + string(js))
		}
		st.Label(sprintf("token/meta=%v/value-nil=%v", tc.Meta != nil, tc.Value == nil))
		st.Sample("token", tc)
		if sig, msg := c14Token(tc); sig != "" {
			rreport("token", tc, sig, msg)
		}
		if sig, msg := c14TokenDirty(tc); sig != "" {
			rreport("token-dirty", tc, sig, msg)
		}
		if v := optBig(tc.Value); true {
			for _, dirty := range []bool{false, true} {
				st.Eval(1)
				if sig, msg := c14Amount(v, dirty); sig != "" {
					rreport("amount-value", map[string]interface{}{"value": tc.Value, "dirty": dirty}, sig, msg)
				}
			}
		}
		mc := genMetaCase(rt, "solo.")
		st.Eval(1)
		if sig, msg := c14Meta(mc); sig != "" {
			rreport("meta", mc, sig, msg)
		}
		nroles := rapid.IntRange(0, 4).Draw(rt, "nroles")
		var roles []string
		for i := 0; i < nroles; i++ {
			roles = append(roles, hx(rapid.SampledFrom([][]byte{{}, []byte("ESDTRoleLocalMint"), []byte("ESDTRoleNFTCreate"), {0}, bytes.Repeat([]byte{7}, 200)}).Draw(rt, "role")))
		}
		nilList := rapid.Bool().Draw(rt, "nilroles")
		st.Eval(1)
		if nroles > 0 {
			st.NT(sprintf("roles:%v", roles))
		}
		if sig, msg := c14Roles(roles, nilList); sig != "" {
			rreport("roles", map[string]interface{}{"roles": roles, "nil": nilList}, sig, msg)
		}

		// arbitrary bytes, and a mutated valid encoding
		raw := rapid.SliceOfN(rapid.Byte(), 0, 64).Draw(rt, "raw")
		valid := RefEncodeToken(tc.ref())
		mut := append([]byte{}, valid...)
		switch rapid.IntRange(0, 3).Draw(rt, "mutkind") {
		case 0:
			if len(mut) > 0 {
				mut[rapid.IntRange(0, len(mut)-1).Draw(rt, "pos")] ^= byte(1 << uint(rapid.IntRange(0, 7).Draw(rt, "bit")))
			}
		case 1:
			mut = mut[:rapid.IntRange(0, len(mut)).Draw(rt, "cut")]
		case 2:
			mut = append(mut, rapid.SliceOfN(rapid.Byte(), 1, 6).Draw(rt, "tail")...)
		case 3:
			if len(mut) > 0 {
				p := rapid.IntRange(0, len(mut)-1).Draw(rt, "pos")
				mut = append(mut[:p:p], append(rapid.SliceOfN(rapid.Byte(), 1, 3).Draw(rt, "ins"), mut[p:]...)...)
			}
		}
		for _, in := range [][]byte{raw, mut, valid} {
			st.Eval(1)
			sig, acc, msg := c14Decode(in)
			if acc {
				st.NT("bytes:" + hx(in))
				st.Label("decode/accepted")
			} else {
				st.Label("decode/rejected")
			}
			if sig != "" {
				rreport("bytes", hx(in), sig, msg)
			}
		}
		ab := rapid.SliceOfN(rapid.Byte(), 0, 40).Draw(rt, "amountbytes")
		st.Eval(1)
		if sig, acc, msg := c14AmountDecode(ab); sig != "" {
			rreport("amount-bytes", hx(ab), sig, msg)
		} else if acc {
			st.NT("amount:" + hx(ab))
		}
	})
}

func replayC14(kind string, raw json.RawMessage) (string, string) {
	switch kind {
	case "amount-bytes":
		var s string
		_ = json.Unmarshal(raw, &s)
		sig, _, msg := c14AmountDecode(unhx(s))
		return sig, msg
	case "amount-value":
		var m struct {
			Value *string `json:"value"`
			Dirty bool    `json:"dirty"`
		}
		_ = json.Unmarshal(raw, &m)
		return c14Amount(optBig(m.Value), m.Dirty)
	case "token", "token-dirty":
		var tc tokenCase
		if err := json.Unmarshal(raw, &tc); err != nil {
			return "replay/bad-file", err.Error()
		}
		if kind == "token" {
			return c14Token(&tc)
		}
		return c14TokenDirty(&tc)
	case "meta":
		var mc metaCase
		_ = json.Unmarshal(raw, &mc)
		return c14Meta(&mc)
	case "roles":
		var m struct {
			Roles []string `json:"roles"`
			Nil   bool     `json:"nil"`
		}
		_ = json.Unmarshal(raw, &m)
		return c14Roles(m.Roles, m.Nil)
	case "bytes":
		var s string
		_ = json.Unmarshal(raw, &s)
		sig, _, msg := c14Decode(unhx(s))
		return sig, msg
	}
	return "replay/unknown-kind", kind
}

func init() { replayers["C14"] = replayC14 }
