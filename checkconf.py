"""Per-property configuration of the driver: which test decides it, budgets per tier, the non-triviality rule."""

ASSUMPTIONS = {
    "N1": "N1: a call executes on one shard; acntSnd/acntDst are the caller's/recipient's account iff it lives on that shard, else nil; vmInput and CallValue are never nil; addresses are 32 bytes",
    "N2": "N2: an error or panic rolls the executing shard back to its pre-call state; success keeps the state",
    "N3": "N3: a successful sender-side execution addressed to another shard leaves one in-flight message (the emitted OutputTransfer, or the user's own transaction when nothing is emitted); messages are delivered in any order with acntSnd=nil",
    "N4": "N4: the caller of a delivered message is the account at which the emitting call executed; output transfers addressed to the executing shard are not re-executed",
    "N5": "N5: a transfer message that fails on the destination shard is returned to the original sender as the same function with the transfer arguments plus one trailing non-empty argument and ReturnCallAfterError=true (elrond-go createSCRsWhenError shape)",
    "N6": "N6: the ESDT system contract is a disciplined message source: registered well-formed token identifiers only, never sets a role twice, one create-role holder per token (a hand-over names a different new owner), freeze/wipe of fungible identifiers and of single (token, nonce) entries by the composed key (at any user or contract address, holding the token or not), exactly-once delivery (a hand-over message may be re-delivered immediately); pause/unpause reach each shard addressed to the system account or to its broadcast alias (trailing bytes = shard id)",
    "N7": "N7: call types other than DirectCall occur only for contract callers or contract-emitted messages; gas values are arbitrary 64-bit numbers",
    "N8": "N8: token holders are user and contract accounts; the per-shard system account and the ESDT system contract are not used as holders",
    "ENC": "the production wire encoding is elrond-go's GogoProtoMarshalizer (obj.Reset(); obj.Unmarshal / obj.Marshal on the generated gogo types), re-implemented in the harness",
    "WORLD": "the harness world stands in for the node: accounts handed out as detached copies and persisted only by SaveAccount (by the node for the two accounts it passes, after success), no data trie before the first persisted key (reads then fail, as elrond-go's ErrNilTrie), rollback on failure, shard coordinator, epoch notifier with header-like timestamps, payability oracle",
}

ENGINE_ASSUMPTIONS = ["N1", "N2", "N3", "N4", "N5", "N6", "N7", "N8", "ENC", "WORLD"]

NOT_APPLICABLE = {}

PROPS = {
    "C20": {
        "test": "TestC20", "level": "exploration", "exhaustive_claim": True,
        "technique": "exhaustive enumeration of small byte/address domains + rapid-generated merge sequences against algebraic-law oracles",
        "level_text": "Every 2-byte input (65536) and all other lengths 0..4 over a 3-value alphabet are enumerated for the three flag codecs, "
                      "a structured address domain is enumerated for the classifiers, and tens of thousands of generated OutputAccount merge "
                      "sequences and SafeSub pairs are checked against the stated laws; complete for the enumerated sub-domains, sampled for merges.",
        "level_note": "Trusted: the reference predicates written from the exported layout constants (bit masks, address prefix lengths); reflect.DeepEqual as equality on OutputAccount.",
        "rule": "enumerated: every 2-byte input and all inputs of length 0,1,3,4 over {00,ff,07} through the three flag codecs; "
                "structured addresses of length 0..40 x 7 identifiers; SafeSub boundary pairs; generated (rapid): 2-4 independently "
                "built OutputAccounts merged left to right, random/near-equal SafeSub pairs. Non-trivial = any enumerated input that is "
                "not all-zero, a merge whose right-hand side has an overlapping storage key, a non-nil delta or transfers, any SafeSub "
                "pair; distinct by input (enumerated domains are distinct by construction and sharded between processes; generated "
                "cases are de-duplicated by a 64-bit hash of the rendered case). exhaustive=true refers to the enumerated "
                "sub-domains listed under exhaustive_subdomains only.",
        "assumptions": [],
        "quick": {"procs": 2, "checks": 15000, "timeout_s": 300},
        "thorough": {"procs": 16, "checks": 150000, "timeout_s": 1800},
    },
    "C14": {
        "test": "TestC14", "level": "exploration", "exhaustive_claim": True,
        "technique": "differential testing against an independent reference encoder/decoder: exhaustive small buffers for the amount codec, rapid-generated structured values, arbitrary and mutated bytes with a re-encode fixed-point oracle",
        "level_text": "The amount decoder is run on every buffer up to 2 (quick) / 3 (thorough) bytes; generated token / role-list / metadata values "
                      "(absent, empty and large fields, varint boundaries, huge and negative amounts) are encoded and compared byte for byte with a "
                      "reference encoder written from esdt.proto, sizes and round trips are checked, and arbitrary / mutated byte strings are decoded "
                      "under a no-panic and re-encode fixed-point oracle. Complete for the enumerated buffers, sampled elsewhere.",
        "level_note": "Trusted: the reference codec in harness/wire.go (written from data/esdt/proto/esdt.proto and the protobuf wire format); the production marshalizer convention obj.Reset();obj.Unmarshal.",
        "rule": "enumerated: amount decoder on every buffer of length <= 2 (quick) / <= 3 (thorough); amount encoder on boundary values into clean and "
                "dirty buffers; generated (rapid): ESDigitalToken/MetaData/ESDTRoles values, 0..64 arbitrary bytes, one mutation (bit flip, cut, "
                "append, insert) of a valid encoding. Non-trivial = a value with at least one non-default field, or a byte string a decoder "
                "accepts; distinct by the rendered value / the bytes (enumerated buffers are distinct by construction and sharded by process).",
        "assumptions": ["ENC"],
        "quick": {"procs": 4, "checks": 12000, "timeout_s": 300},
        "thorough": {"procs": 16, "checks": 250000, "timeout_s": 2400},
    },
    "C12": {
        "test": "TestC12", "level": "exploration", "exhaustive_claim": True,
        "technique": "exhaustive enumeration of short strings + rapid-generated round trips and hostile transfer-parser inputs against an independent reference parser / encoder",
        "level_text": "Every string up to 6 (quick) / 7 (thorough) characters over {letter,'@',hex digits in both cases,non-hex} goes through the call-args, "
                      "deploy-args and storage-updates parsers (no panic, result xor error, agreement with an independent split-and-hex reference on every "
                      "well-formed input); generated function/argument lists, builder programs, deploy data and storage-update lists are round-tripped; the "
                      "ESDT-transfer parser is driven with structured hostile inputs (64-bit wrap residues of 3n+c, truncated and value-less payloads). "
                      "Complete for the enumerated strings, sampled elsewhere.",
        "level_note": "Trusted: the reference tx-data codec TxEncode/TxDecode in harness/wire.go; domain restricted as the statement says (function names non-empty without '@'; storage lists non-empty with a non-empty first offset).",
        "rule": "enumerated: all strings of length <= 6 (quick) / <= 7 (thorough) over a 6-character alphabet through three parsers; generated (rapid): "
                "random strings up to 40 characters, (function, 0..6 args) lists with empty / zero / wrap-residue arguments, builder programs, deploy "
                "data, storage lists, ESDT-transfer-parser inputs. Non-trivial = an input at least one parser accepts, or one that contains a separator "
                "(and is therefore rejected by hex/arity validation rather than trivially), or a transfer-parser input that is accepted (its count "
                "passed the length test); distinct by the string / rendered case.",
        "assumptions": ["ENC"],
        "quick": {"procs": 4, "checks": 15000, "timeout_s": 300, "env": {"VERIF_C12_MAXLEN": 6}},
        "thorough": {"procs": 16, "checks": 300000, "timeout_s": 2400, "env": {"VERIF_C12_MAXLEN": 7}},
    },
}

ENGINE_NOTE = ("Trusted: the harness world (accounts/adapter/coordinator/notifier/payability oracle standing in for the node), the node "
               "conventions N1-N8 listed under assumptions, the reference model in harness/model.go+judge*.go (success effects and must-fail "
               "reasons written from the property statements) and the reference wire codec; schedules are not explored (single goroutine).")


def engine_prop(test, technique, level_text, rule, quick_checks, thorough_checks, quick_procs=8, steps_note="", extra=None):
    d = {
        "test": test, "level": "exploration", "technique": technique, "level_text": level_text, "level_note": ENGINE_NOTE, "rule": rule,
        "assumptions": ENGINE_ASSUMPTIONS,
        "quick": {"procs": quick_procs, "checks": quick_checks, "timeout_s": 600, "shrinktime": "20s"},
        "thorough": {"procs": 16, "checks": thorough_checks, "timeout_s": 3000, "shrinktime": "60s"},
    }
    if extra:
        d.update(extra)
    return d


HIST = ("rapid-generated histories of concrete operations (G1 model-aware valid intents, G2 mutations, G3 unstructured calls, system-contract "
        "messages, deliveries in random order, refunds, payability/gas/epoch changes) over a 1-3 shard world built by the real factory with the "
        "production protobuf encoding; after every call the complete shard state is compared with a reference model and the generic diff "
        "monitors run. ")

PROPS.update({
    "C01": engine_prop("TestC01", "stateful model-based PBT (rapid) over a multi-shard ledger simulator: exact-move, delivery-accepted and global conservation oracles",
        "Tens of thousands (quick) to millions (thorough) of generated calls: every successful transfer must move exactly the listed quantities at storage-key level, every protocol-generated message must be accepted unless frozen/paused/non-payable, refunds must be accepted, and after every step accounts + undelivered messages = supply for every key. Sampled, not exhaustive.",
        HIST + "Non-trivial = a successful transfer execution (either side), delivery or refund; distinct by (kind, function, side, generator shape labels "
        "such as same/cross shard, destination-holds, multi-n, alias, attached call, call type, #args, #items).", 4000, 60000),
    "C02": engine_prop("TestC02", "stateful model-based PBT (rapid): exact supply deltas, overdraft must-fail, non-negativity scan",
        "Every successful mint/burn/create/add-quantity/wipe must change exactly the caller's (target's) entry by the stated amount and nothing else; any operation taking more than held must fail; every stored value is scanned for sign after every step.",
        HIST + "Non-trivial = a successful supply-changing call, or a rejected one whose amount is balance+1 or 0; distinct by (function, amount/shape labels, side).", 4000, 50000),
    "C03": engine_prop("TestC03", "stateful model-based PBT (rapid) with role-subset templates: must-fail on missing role, no-effect oracle for unauthorised system/account calls, frame monitor on role/freeze/pause/counter keys",
        "Role-gated calls by accounts whose model role set lacks the required role must fail; system-only and account-level functions called by anybody else must leave every shard unchanged; role lists, frozen bits, pause flags and counters may change only in calls from the system contract (or the hand-over message). A directed template gives an account every role but one, plus the roles for another token.",
        HIST + "Non-trivial = a call of a role-gated/system-only/account-level function that is unauthorised per the model (rejected or not), or an authorised success; distinct by (function, outcome, the caller's role subset for the named token + #roles on other tokens).", 3500, 45000),
    "C04": engine_prop("TestC04", "stateful model-based PBT (rapid): must-fail while frozen/paused + diff monitor on flagged entries, exemptions from the statement",
        "While the model says an entry is frozen or its token paused on the shard, every attempt to change it must fail unless it is a return-after-error refund or a freeze/unfreeze/wipe by the system contract; unfreeze/unpause must restore behaviour (the model drops the flag and exactness is checked on later calls).",
        HIST + "Non-trivial = a balance-changing attempt on a frozen entry / paused token (rejected), or an exempt change that was accepted; distinct by (function, which flag and side, outcome, refund flag).", 4000, 50000),
    "C05": engine_prop("TestC05", "stateful model-based PBT (rapid): SaveKeyValue key-lattice generator with last-write-wins oracle + whole-world frame monitor on every call",
        "SaveKeyValue is driven with keys from the prefix lattice of ELROND (proper prefixes, exact, extended, case variants, live protocol keys) and must reject protected keys / contracts / foreign accounts and write exactly the listed pairs; every call of every history may only touch protocol entries of tokens named in its input in sender, destination or system account.",
        HIST + "Non-trivial = a SaveKeyValue that must be rejected, a SaveKeyValue that changed >= 1 key, or any successful state-changing call (frame part); distinct by key class / (function, side, classes of entries changed).", 4000, 50000),
    "C06": engine_prop("TestC06", "stateful PBT (rapid) with gas drawn around the model's expected charge; arbitrary-precision gas inequality oracle",
        "For every successful call GasRemaining + forwarded gas <= GasProvided in big-integer arithmetic; with GasProvided below the expected charge a success must consume everything. Gas is drawn from {0,1,charge-1,charge,charge+1,2*charge,2^32,2^63,2^64-1} using the model's charge formula.",
        HIST + "Non-trivial = a success with GasProvided <= charge+1, or a rejection for lack of gas; distinct by (function, side, gas class, shape labels).", 4500, 50000),
    "C07": engine_prop("TestC07", "stateful model-based PBT (rapid) with create/hand-over templates: returned nonce = counter+1, issued-set uniqueness, counter/role movement oracle",
        "Every successful create must return previous counter + 1 above every nonce ever issued for the token; hand-over (same shard, cross shard, late, immediately re-delivered, seeded counters up to 2^63) must move counter and role together; nobody can create while it is in flight.",
        HIST + "Non-trivial = a create that follows a burn, a transfer-away or a hand-over of the same token in the same history; distinct by (sequence of preceding event kinds, byte length of the returned nonce).", 4000, 50000),
    "C08": engine_prop("TestC08", "stateful model-based PBT (rapid): field-by-field metadata equality with the model after every step, payload decoded with the reference codec",
        "The model carries the metadata of every holding; after every step every NFT entry must equal it field by field; payloads of emitted messages and the create log are decoded with the independent decoder; royalties above 10000 and hash clashes must be rejected.",
        HIST + "Non-trivial = a successful hop (either side) of an item whose metadata has >= 1 non-empty optional field, a metadata update, or a call that must be rejected (royalties / different hash); distinct by (function, side, field-emptiness pattern, #items).", 4000, 50000),
    "C09": engine_prop("TestC09", "stateful model-based PBT (rapid) with a per-address payability oracle (payable/non-payable/erroring): must-fail + credit monitor with the statement's exemptions",
        "Any credit through a transfer function to an account the oracle reports non-payable (or errors on) must carry an exemption (attached call by argument count, callback / transfer-and-execute, system contract, refund); metachain, self and wrong-length destinations must be rejected.",
        HIST + "Non-trivial = a transfer that must be rejected under C09 (non-payable without exemption, metachain, self, length), or an exempt credit to a non-payable account; distinct by (function, reason/side, outcome, call type, #args).", 4000, 50000),
    "C10": engine_prop("TestC10", "differential PBT (rapid): emitted data vs independent decoder vs call-args parser; ESDT-transfer parser vs the ledger diff/model on the executing input; delivery-accepted oracle",
        "Every non-empty emitted data string must parse (ParseData) to what the harness decoder reads and to what the model says was encoded; every continued operation must be accepted by the same-named function on the destination shard; ParseESDTTransfers on the executing input must report exactly the receiver, items and attached call the ledger moves.",
        HIST + "Non-trivial = an accepted transfer with >= 1 of {attached call, >= 2 tokens, NFT payload, leading-zero number, delivery}; distinct by (function, side, shape labels, #args).", 4000, 50000),
    "C11": engine_prop("TestC11", "stateful PBT (rapid) weighted to G2/G3 hostile inputs: result-shape, panic and allocation-ceiling oracles",
        "All 23 functions are called with 0..12 adversarial arguments (wrap residues of 3n+c, aliasing identifiers, 8/9-byte integers, 2^20..2^24 counts, 31/32/33-byte addresses) on states reached by valid prefixes, plus every emitted message on its destination shard: (Ok output, nil error) xor (nil output, error), no panic, allocation bounded by what the REAL size of the input and of the stored values explains (8 MiB for any ordinary call), and every call returns (a deadlock, established from the goroutine dump, is a violation).",
        HIST + "Non-trivial = a G2/G3 call that gets past argument-count validation (its error is not an invalid-arguments / nil-input one) or carries a hostile constant; distinct by (function, layer, shape labels, error class, #args).", 6000, 80000),
    "C15": engine_prop("TestC15", "stateful PBT (rapid) long random walks with a full well-formedness scan of the executing shard after every step",
        "Long walks (100-300 operations): after every step every ELROND key must have one of the three layouts, every value must decode, balances positive (zero only with a frozen flag), fungible entries without and NFT entries with matching metadata nonce, no duplicate roles, create-role counter >= highest nonce issued.",
        HIST + "Non-trivial = a step that added, removed or rewrote a protocol entry; distinct by (function, side, set of (entry kind, transition kind)).", 700, 8000),
    "C16": engine_prop("TestC16", "stateful model-based PBT (rapid) with generated schedule-change sequences (valid, one entry zeroed, one entry missing; 22 pairwise distinct costs): exact-charge oracle",
        "Schedules with pairwise distinct costs are changed 0..n times (each valid or invalid by one entry); every successful priced execution must consume exactly its own entry plus per-byte components under the last ACCEPTED schedule (same-shard NFT moves: base or base + payload bytes).",
        HIST + "Non-trivial = a successful priced execution after >= 1 schedule change on its shard; distinct by (function, side, #changes capped at 3, validity of the last change, input size class).", 4000, 50000),
})

PROPS.update({
    "C13": engine_prop("TestC13", "metamorphic / differential PBT (rapid): every call of a generated history executed three times (history world, clone with fresh container, clone whose container served earlier calls; two on other goroutines) with byte-identical canonical serialisations; input laid out in one poisoned backing array",
        "Each call's result (return code, gas, return data, logs in order, output accounts/transfers, error text) and resulting ledger are serialised canonically and must be identical across the three executions; the input structure, every argument slice and the shared backing array including spare capacity must equal the copy taken before the call.",
        HIST + "Non-trivial = a successful call that changes state or emits an output transfer (executed 3x); distinct by (function, side, emits, #logs, shape labels).", 1500, 12000),
    "C17": engine_prop("TestC17", "fault-injection enumeration over rapid-generated successful scenarios: k-th call to each injected dependency fails, for every k",
        "For every distinct successful scenario met (function, side, dependency-call signature, call type, #args) the call is re-run on a clone once for every (dependency kind, k <= number of calls to it) with that call failing: data-trie write, accounts-adapter load/save, marshal, unmarshal, payable query, balance/owner/reward operation (system-account load only inside ESDTPause/UnPause; storage reads and the pause lookup are excluded by the statement). Exhaustive per scenario over its fault points; the scenario space is sampled.",
        HIST + "Each successful scenario is fault-enumerated completely. Non-trivial = one (scenario signature, dependency kind, k) triple whose injected fault was actually reached; distinct by that triple.", 2500, 25000,
        extra={"level": "fault_enumeration"}),
    "C18": {
        "test": "TestC18", "level": "exploration", "exhaustive_claim": True,
        "technique": "exhaustive enumeration of epoch-notification sequences over a small domain + rapid-generated 32-bit sequences and factory configurations; registry equality and per-name behavioural fingerprints judged by the reference model",
        "level_text": "IsActive of all 23 functions is checked after every notification for 6 activation epochs x every epoch sequence of length <= 5 over {0..4} and length <= 3 over 32-bit boundary values (complete), plus random sequences with repeats and regressions; for generated factory configurations Keys() must equal the 23 protocol names and a 32-step fingerprint scenario run through container.Get(name) must show each name's own effects exactly (engine exactness oracle) and succeed at least once per name.",
        "level_note": ENGINE_NOTE + " The epoch notifier announces its current epoch (0) at registration, as elrond-go's does.",
        "rule": "enumerated: (activation epoch, notification sequence) pairs as described; generated: random sequences around the activation epoch, factory configurations (1-3 shards, gas scale, name-change flag, owners, activation epoch). Non-trivial = a sequence with >= 1 notification that flips the expected activity, or a configuration put through the registry + binding fingerprint; distinct by sequence / configuration (enumerated ones are distinct by construction and sharded by process). exhaustive=true refers to the enumerated sub-domain only.",
        "assumptions": ENGINE_ASSUMPTIONS,
        "quick": {"procs": 4, "checks": 2500, "timeout_s": 600},
        "thorough": {"procs": 16, "checks": 120000, "timeout_s": 3000},
    },
    "C19": {
        "test": "TestC19", "level": "exploration", "race": True,
        "technique": "randomised concurrency testing: rapid-generated operation mixes on 2-16 goroutines, recorded histories judged by a linearizability checker (porcupine) against sequential specifications, Go race detector, and a whole-schedule charge oracle under concurrent gas-schedule flips",
        "level_text": "Schedules are sampled by the Go scheduler, not owned: hundreds (quick) to tens of thousands (thorough) of generated mixes on MutexMap, the function container and the six atomic types are run several times each and every recorded history must be linearizable; a live world runs priced executions on private accounts concurrently with schedule flips, epoch notifications and registry reads, under -race, and every charge must equal one schedule's formula as a whole. A bug needing one specific preemption can be missed; lock-discipline bugs are caught by the race detector regardless of interleaving.",
        "level_note": "Trusted: porcupine v1.3.0, the Go race detector, the sequential specifications in harness/c19_test.go; one goroutine at a time calls GasScheduleChange (the factory is not documented as concurrent-safe for writers). Linearizability checks that time out (300 ms) are counted as inconclusive, never as violations.",
        "rule": "generated (rapid): target object, 2-16 goroutines, 1-10 operations each over 4 keys, run 3 times (quick) / 10 times (thorough); live cases on a two-shard world with 2-8 executing goroutines (30 call shapes: every priced function, transfers with attached calls to local and remote users and contracts, SetUserName / ChangeOwnerAddress / ClaimDeveloperRewards; charges and outcomes compared with two sequential baselines under schedule A and under schedule B; a third of the state-neutral operations with GasProvided between the two charges), continuous schedule flips, epoch notifications; a deadlock watchdog over every section; writer/observer runs where every insert and removal is awaited by an armed observer. Before the generated cases every process runs fixed conservation workloads on Counter and Flag (adders against a resetter: returned + final = net added; Increment values unique; one of G concurrent Set calls sees 'not set'; a flag that only receives Toggle(v) is never read as !v). Non-trivial = a mix containing >= 1 mutating operation in which operations of different goroutines overlapped in time in at least one run (measured from the recorded timestamps), or a live case; distinct by the rendered mix.",
        "assumptions": ["WORLD", "ENC"],
        "quick": {"procs": 4, "checks": 250, "timeout_s": 900, "gomaxprocs": 4, "env": {"VERIF_C19_ROUNDS": 3}},
        "thorough": {"procs": 8, "checks": 6000, "timeout_s": 3400, "gomaxprocs": 4, "env": {"VERIF_C19_ROUNDS": 10}},
    },
})

# thorough tier: coverage-guided native fuzz campaigns (target, seconds)
PROPS["C11"]["fuzz"] = [("FuzzC11Call", 120)]
PROPS["C12"]["fuzz"] = [("FuzzC12String", 60), ("FuzzC12TransferParser", 60)]
PROPS["C14"]["fuzz"] = [("FuzzC14Decode", 90)]
for _p in ("C11", "C12", "C14"):
    PROPS[_p]["technique"] += "; thorough tier adds coverage-guided native go fuzzing of byte-level targets with the oracle inside the target"

PROPS["C15"]["exhaustive_claim"] = True
PROPS["C15"]["quick"]["env"] = {"VERIF_C15_DEPTH": 3}
PROPS["C15"]["thorough"]["env"] = {"VERIF_C15_DEPTH": 4}
PROPS["C15"]["technique"] = "exhaustive enumeration of all operation sequences up to depth 3 (quick) / 4 (thorough) over a tiny universe + stateful PBT (rapid) long random walks; full well-formedness scan of the executing shard after every step"
PROPS["C15"]["rule"] += (" Enumerative part: every sequence of 3 (quick) / 4 (thorough) abstract operations from an alphabet of 41 over {2 shards; users A,B (shard 0), C (shard 1); "
                         "one fungible and one semi-fungible token; amounts 1/all}, sharded between processes; an enumerated sequence is non-trivial when at least one of its calls changed "
                         "state (distinct by construction). exhaustive=true refers to that enumerated sub-domain only.")
PROPS["C15"]["level_text"] += " Every operation sequence up to depth 3/4 over a tiny universe is enumerated completely."

PROPS["C09"]["exhaustive_claim"] = True
PROPS["C09"]["technique"] = "enumerated product sweep (function x route x sender/destination kind x oracle answer x call type x argument count x token kinds) + " + PROPS["C09"]["technique"]
PROPS["C09"]["rule"] += (" Enumerative part: the full product described under exhaustive_subdomains (1350 combinations, each a short scripted history through the engine: sender side, "
                         "delivery, refund), sharded between processes; a combination's call is non-trivial by the same rule (distinct by construction). exhaustive=true refers to that sweep only.")

PROPS["C04"]["rule"] = PROPS["C04"]["rule"].replace("distinct by (function, which flag and side, outcome, refund flag).", "distinct by (function, which flag and side, outcome, refund flag, call type, caller kind, #args, delivery or not, generator shape labels). One history in three also runs on a shadow world that gets an extra freeze;unfreeze or pause;unpause pair at a drawn step, after which results and decoded ledgers must stay identical (counters shadow_* under extra).")
PROPS["C09"]["rule"] = PROPS["C09"]["rule"].replace("distinct by (function, reason/side, outcome, call type, #args).", "distinct by (function, reason/side, outcome, call type, #args, caller kind, generator shape labels).", 1)

PROPS["C12"]["technique"] += "; plus rapid-generated ledger histories in which every data string emitted by the built-in functions' own encoder must parse to what was encoded"
PROPS["C12"]["rule"] += (" Engine part: generated histories (transfer-heavy, attached calls, deliveries) through the world simulator; a call is non-trivial when it emits a "
                         "non-empty data string; distinct by (function, side, #args, shape labels). Function names for the round trips are also drawn as raw bytes (any byte but '@').")
PROPS["C12"]["assumptions"] = ENGINE_ASSUMPTIONS
