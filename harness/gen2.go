package harness

// G2 (mutations of valid intents) and G3 (unstructured calls from a pool of hostile constants).

import (
	"bytes"
	"math/big"

	"pgregory.net/rapid"
)

var allFunctionNames = []string{
	refBuiltInFunctionClaimDeveloperRewards, refBuiltInFunctionChangeOwnerAddress, refBuiltInFunctionSetUserName,
	refBuiltInFunctionSaveKeyValue, refBuiltInFunctionESDTTransfer, refBuiltInFunctionESDTBurn, refBuiltInFunctionESDTFreeze,
	refBuiltInFunctionESDTUnFreeze, refBuiltInFunctionESDTWipe, refBuiltInFunctionESDTPause, refBuiltInFunctionESDTUnPause,
	refBuiltInFunctionSetESDTRole, refBuiltInFunctionUnSetESDTRole, refBuiltInFunctionESDTLocalMint, refBuiltInFunctionESDTLocalBurn,
	refBuiltInFunctionESDTNFTTransfer, refBuiltInFunctionESDTNFTCreate, refBuiltInFunctionESDTNFTAddQuantity, refBuiltInFunctionESDTNFTCreateRoleTransfer,
	refBuiltInFunctionESDTNFTBurn, refBuiltInFunctionESDTNFTAddURI, refBuiltInFunctionESDTNFTUpdateAttributes, refBuiltInFunctionMultiESDTNFTTransfer,
}

// reshard places the call where the node would execute it first: on the caller's shard, or - when the caller lives on
// the metachain (the system contract) - on the recipient's shard.
func (g *Gen) reshard(c *Call) {
	n := g.e.M.NShards
	if s := int(g.e.M.shardOf(c.Caller)); s < n {
		c.Shard = s
		return
	}
	if s := int(g.e.M.shardOf(c.Rcv)); s < n {
		c.Shard = s
	}
}

func (g *Gen) hostileAddr(label string, self []byte) []byte {
	switch g.pick(label, 8) {
	case 0:
		return cp(self[:31])
	case 1:
		return append(cp(self), 0)
	case 2:
		return []byte{}
	case 3:
		return cp(self)
	case 4:
		return cp(refESDTSC)
	case 5:
		return metaSC()
	default:
		return g.addr(label + "any")
	}
}

// genAlias builds a call whose token identifier, concatenated with its nonce, aliases the storage key of another holding.
func (g *Gen) genAlias() *Call {
	hs := g.holdings("")
	if len(hs) == 0 {
		return g.genTransfer()
	}
	h := hs[g.pick("al-h", len(hs))]
	full := []byte(h.suffix) // token ‖ nonce bytes of a real entry
	to := g.dest("al-to", h.addr)
	amt := g.amount("al-amount", h.e.Value)
	g.Shape = append(g.Shape, "alias")
	var c *Call
	switch g.pick("al-kind", 6) {
	case 5: // plain burn naming the whole key of an NFT / SFT holding (a burn of NFT quantity without the NFT burn role)
		c = &Call{Fn: refBuiltInFunctionESDTBurn, Args: hbs(full, amt)}
		c.Caller, c.Rcv = cp(h.addr), cp(refESDTSC)
	case 0: // NFT transfer reading the entry under a shorter identifier
		k := 1 + g.pick("al-cut", 2)
		c = &Call{Fn: refBuiltInFunctionESDTNFTTransfer, Args: hbs(full[:len(full)-k], full[len(full)-k:], amt, to)}
	case 1: // multi transfer, same trick
		k := 1 + g.pick("al-cut", 2)
		c = &Call{Fn: refBuiltInFunctionMultiESDTNFTTransfer, Args: hbs(to, []byte{1}, full[:len(full)-k], full[len(full)-k:], amt)}
	case 2: // multi transfer naming the whole key as a nonce-less identifier
		c = &Call{Fn: refBuiltInFunctionMultiESDTNFTTransfer, Args: hbs(to, []byte{1}, full, []byte{}, amt)}
	case 3: // fungible transfer naming the whole key
		c = &Call{Fn: refBuiltInFunctionESDTTransfer, Args: hbs(full, amt)}
		c.Caller, c.Rcv = cp(h.addr), cp(to)
	default: // burn / add-quantity on an aliased key (needs a role on the bogus identifier: expected to fail)
		k := 1 + g.pick("al-cut", 2)
		fn := pickFrom(g, "al-fn", []string{refBuiltInFunctionESDTNFTBurn, refBuiltInFunctionESDTNFTAddQuantity, refBuiltInFunctionESDTNFTAddURI})
		c = &Call{Fn: fn, Args: hbs(full[:len(full)-k], full[len(full)-k:], amt)}
	}
	if c.Caller == nil {
		c.Caller, c.Rcv = cp(h.addr), cp(h.addr)
	}
	c.Shard = g.shard(h.addr)
	g.gasFor(c)
	return c
}

func (g *Gen) mutate(c *Call) {
	if isESDTSC(c.Caller) {
		// a disciplined system-contract call (N6) is only ever mutated into an UNAUTHORISED one: the caller is replaced
		// first, so that whatever else is changed it must remain without effect
		g.mutCaller(c)
		g.Shape = append(g.Shape, "mut:caller")
		if rapid.Bool().Draw(g.t, "mut-more") {
			g.mutateOnce(c)
		}
		return
	}
	if g.pick("mut-alias", 6) == 0 {
		*c = *g.genAlias()
		return
	}
	nmut := 1 + g.pick("mut-n", 2)
	for i := 0; i < nmut; i++ {
		g.mutateOnce(c)
	}
}

func (g *Gen) mutateOnce(c *Call) {
	args := c.Args
	pickArg := func(label string) int {
		if len(args) == 0 {
			return -1
		}
		return g.pick(label, len(args))
	}
	kind := pickFrom(g, "mut-kind", []string{"drop-arg", "dup-arg", "append-arg", "replace-arg", "nonce", "count", "address-arg", "caller", "recipient", "calltype", "gas", "callvalue", "token"})
	g.Shape = append(g.Shape, "mut:"+kind)
	switch kind {
	case "drop-arg":
		if i := pickArg("mut-i"); i >= 0 {
			c.Args = append(append([]HB{}, args[:i]...), args[i+1:]...)
		}
	case "dup-arg":
		if i := pickArg("mut-i"); i >= 0 {
			c.Args = append(append(append([]HB{}, args[:i+1]...), args[i]), args[i+1:]...)
		}
	case "append-arg":
		c.Args = append(append([]HB{}, args...), g.hostile("mut-extra", c.Caller))
	case "replace-arg":
		if i := pickArg("mut-i"); i >= 0 {
			c.Args = append([]HB{}, args...)
			c.Args[i] = g.hostile("mut-repl", c.Caller)
		}
	case "nonce":
		// functions with a nonce at argument 1
		if len(args) >= 2 {
			n := low64(args[1])
			c.Args = append([]HB{}, args...)
			c.Args[1] = pickFrom(g, "mut-nonce", [][]byte{append([]byte{0, 0}, args[1]...), append([]byte{1}, leftPad8(args[1])...), beNonce(n + 1), beNonce(n - 1), {}, {0},
				{1, 0, 0, 0, 0, 0, 0, 0, 0}, {3, 0, 0, 0, 0, 0, 0, 0, 0}, {1, 0, 0, 0, 0, 0, 0, 0, 0, 0, 0, 0, 0, 0, 0, 0, 0}}) // the last three: non-zero numbers whose low 64 bits are zero
		}
	case "count":
		if c.Fn == refBuiltInFunctionMultiESDTNFTTransfer && len(args) >= 2 {
			c.Args = append([]HB{}, args...)
			c.Args[1] = pickFrom(g, "mut-count", wrapResidues)
			g.Shape = append(g.Shape, "wrap-residue")
		}
	case "address-arg":
		idx := -1
		switch c.Fn {
		case refBuiltInFunctionESDTNFTTransfer:
			idx = 3
		case refBuiltInFunctionMultiESDTNFTTransfer, refBuiltInFunctionChangeOwnerAddress:
			idx = 0
		case refBuiltInFunctionESDTNFTCreateRoleTransfer:
			idx = 1
		}
		if idx >= 0 && idx < len(args) {
			c.Args = append([]HB{}, args...)
			c.Args[idx] = g.hostileAddr("mut-addr", c.Caller)
		} else {
			c.Rcv = g.hostileAddr("mut-rcv", c.Caller)
			if len(c.Rcv) != 32 {
				c.Rcv = metaSC()
			}
		}
	case "caller":
		g.mutCaller(c)
	case "recipient":
		c.Rcv = cp(g.addr("mut-rcv2"))
	case "calltype":
		if refIsSC(c.Caller) {
			c.CallType = g.pick("mut-ct", 4)
		}
	case "gas":
		c.Gas = pickFrom(g, "mut-gas", []uint64{0, 1, 100, 1 << 32, 1 << 63, ^uint64(0)})
	case "callvalue":
		c.CallValue = 1 + g.pick("mut-cv", 2)
	case "token":
		if len(args) >= 1 {
			c.Args = append([]HB{}, args...)
			t := args[0]
			c.Args[0] = pickFrom(g, "mut-token", [][]byte{append(cp(t), '0'), append(cp(t), 1), trunc(t, 1), trunc(t, 2), []byte("UNK-000000"), {}})
		}
	}
	// a destination-side-only shape with a local caller is not what a transaction produces; keep the call on the caller's shard
	if c.MsgID == 0 && int(g.e.M.shardOf(c.Caller)) < g.e.M.NShards {
		c.Shard = g.shard(c.Caller)
	}
}

// mutCaller replaces the caller by another non-system identity and moves the call to where that caller's
// transaction would execute.
func (g *Gen) mutCaller(c *Call) {
	self := bytes.Equal(c.Caller, c.Rcv)
	switch pickFrom(g, "mut-caller", []string{"user", "user", "contract", "dns", "owner"}) {
	case "user":
		c.Caller = cp(g.e.Spec.Users[g.pick("mut-user", len(g.e.Spec.Users))])
	case "contract":
		c.Caller = cp(g.e.Spec.Contracts[g.pick("mut-sc", len(g.e.Spec.Contracts))].Addr)
	case "dns":
		c.Caller = cp(g.e.Spec.DNS[0])
	default:
		c.Caller = cp(g.e.Spec.Contracts[0].Owner)
	}
	if self && rapid.Bool().Draw(g.t, "mut-keep-self") {
		c.Rcv = cp(c.Caller)
	}
	if refIsSystemAccount(c.Rcv) && rapid.Bool().Draw(g.t, "mut-sys-rcv") {
		c.Rcv = cp(c.Caller)
	}
	g.reshard(c)
}

func trunc(b []byte, k int) []byte {
	if len(b) <= k {
		return []byte{}
	}
	return cp(b[:len(b)-k])
}

func leftPad8(b []byte) []byte {
	if len(b) >= 8 {
		return cp(b[len(b)-8:])
	}
	return append(make([]byte, 8-len(b)), b...)
}

// hostile draws one adversarial argument.
func (g *Gen) hostile(label string, self []byte) []byte {
	m := g.e.M
	switch g.pick(label, 16) {
	case 0:
		return []byte{}
	case 1:
		return pickFrom(g, label+"small", [][]byte{{0}, {0, 0}, {1}, {2}, {0, 1}})
	case 2:
		g.Shape = append(g.Shape, "wrap-residue")
		return pickFrom(g, label+"res", wrapResidues)
	case 3:
		return pickFrom(g, label+"int", [][]byte{bytes.Repeat([]byte{0xff}, 8), bytes.Repeat([]byte{0xff}, 9), {1, 0, 0, 0, 0, 0, 0, 0, 0}, {1, 0, 0, 0, 0, 0, 0, 0, 1}, {0x7f, 0xff, 0xff, 0xff, 0xff, 0xff, 0xff, 0xff}})
	case 4:
		g.Shape = append(g.Shape, "big-count")
		return new(big.Int).Lsh(big.NewInt(1), uint(20+g.pick(label+"pow", 5))).Bytes()
	case 5, 6:
		toks := m.sortedTokens()
		return []byte(toks[g.pick(label+"tok", len(toks))])
	case 7:
		hs := g.holdings("")
		if len(hs) > 0 {
			g.Shape = append(g.Shape, "alias")
			return []byte(hs[g.pick(label+"sfx", len(hs))].suffix)
		}
		return []byte("TOK-12345")
	case 8:
		return []byte(allRoles[g.pick(label+"role", len(allRoles))])
	case 9:
		return g.hostileAddr(label+"addr", self)
	case 10:
		return g.addr(label + "holder")
	case 11:
		return RefEncodeToken(&RefToken{Type: 1, Value: big.NewInt(3), Meta: &RefMeta{Nonce: 1, Name: []byte("n"), Hash: []byte("h")}})
	case 12:
		return pickFrom(g, label+"pay", [][]byte{{0x08, 0x01}, {0x12}, {0x12, 0x00}, {0x22, 0x00}, {0x12, 0x02, 0x00, 0x05}})
	case 13:
		return pickFrom(g, label+"key", [][]byte{[]byte("ELROND"), []byte("ELRONDesdtFNG-a1b2c3"), []byte("ELRONDroleesdtFNG-a1b2c3"), []byte("ELRONDnonceSFT-0a0b0c")})
	default:
		return rapid.SliceOfN(rapid.Byte(), 0, 9).Draw(g.t, label+"rnd")
	}
}

func (g *Gen) genUnstructured() *Call {
	fn := allFunctionNames[g.pick("un-fn", len(allFunctionNames))]
	caller := g.addr("un-caller2")
	var rcv []byte
	switch g.pick("un-rcvkind", 6) {
	case 0, 1, 2:
		rcv = cp(caller)
	case 3:
		rcv = g.addr("un-rcv2")
	case 4:
		rcv = cp(refESDTSC)
	default:
		rcv = metaSC()
	}
	n := g.pick("un-nargs", 13)
	c := &Call{Shard: g.shard(caller), Fn: fn, Caller: cp(caller), Rcv: rcv}
	for i := 0; i < n; i++ {
		c.Args = append(c.Args, g.hostile("un-arg", caller))
	}
	c.CallType = g.callType("un-type", caller)
	c.Gas = pickFrom(g, "un-gas", []uint64{0, 1, 1000, ampleGas, 1 << 63, ^uint64(0)})
	if g.pick("un-cv", 16) == 0 {
		c.CallValue = 1 + g.pick("un-cvv", 2)
	}
	return c
}
