package harness

// The ledger properties C02-C11, C15, C16 on generated histories: one engine, per-property generator weights,
// non-triviality rule and violation filter.  (C01 is in c01_test.go, C13 in c13_test.go, C17 in c17_test.go.)

import (
	"bytes"
	"math/big"
	"sort"
	"strings"
	"testing"
)

var supplyFns = map[string]bool{refBuiltInFunctionESDTLocalMint: true, refBuiltInFunctionESDTLocalBurn: true, refBuiltInFunctionESDTBurn: true,
	refBuiltInFunctionESDTNFTCreate: true, refBuiltInFunctionESDTNFTAddQuantity: true, refBuiltInFunctionESDTNFTBurn: true, refBuiltInFunctionESDTWipe: true}

var roleGatedFns = map[string]bool{refBuiltInFunctionESDTLocalMint: true, refBuiltInFunctionESDTLocalBurn: true, refBuiltInFunctionESDTNFTCreate: true,
	refBuiltInFunctionESDTNFTAddQuantity: true, refBuiltInFunctionESDTNFTBurn: true, refBuiltInFunctionESDTNFTAddURI: true, refBuiltInFunctionESDTNFTUpdateAttributes: true}

var systemFns = map[string]bool{refBuiltInFunctionESDTFreeze: true, refBuiltInFunctionESDTUnFreeze: true, refBuiltInFunctionESDTWipe: true, refBuiltInFunctionESDTPause: true,
	refBuiltInFunctionESDTUnPause: true, refBuiltInFunctionSetESDTRole: true, refBuiltInFunctionUnSetESDTRole: true, refBuiltInFunctionESDTNFTCreateRoleTransfer: true}

var accountFns = map[string]bool{refBuiltInFunctionChangeOwnerAddress: true, refBuiltInFunctionClaimDeveloperRewards: true, refBuiltInFunctionSetUserName: true}

func mustFailFor(rec *CallRecord, prop string) (string, bool) {
	for _, cl := range rec.V.MustFail {
		for _, p := range cl.Props {
			if p == prop {
				return cl.Sig, true
			}
		}
	}
	return "", false
}

func hasLabel(rec *CallRecord, prefix string) bool {
	for _, l := range rec.V.Labels {
		if strings.HasPrefix(l, prefix) {
			return true
		}
	}
	return false
}

func hasShape(g *Gen, s string) bool {
	for _, x := range g.Shape {
		if x == s {
			return true
		}
	}
	return false
}

// ---------------------------------------------------------------- C02

var c02Weights = baseWeights.with(Weights{"mint": 10, "localburn": 10, "burn": 10, "create": 12, "addq": 9, "nftburn": 9, "wipe": 6, "freeze": 6, "issue": 9, "setrole": 10,
	"transfer": 5, "nfttransfer": 4, "multi": 5, "deliver": 10, "gas": 0, "epoch": 0})

func TestC02(t *testing.T) {
	runHistories(t, historyCfg{prop: "C02", weights: c02Weights, minSteps: 10, maxSteps: 60, templates: singleNFTTemplates, templateP: 12, nontrivial: func(rec *CallRecord, g *Gen) (string, bool) {
		if !supplyFns[rec.Call.Fn] && !(transferFns[rec.Call.Fn] && !rec.Res.OK()) {
			return "", false
		}
		edge := hasShape(g, "amount=balance+1") || hasShape(g, "amount=0")
		if rec.Res.OK() && supplyFns[rec.Call.Fn] {
			return sprintf("supply-change|%s|%s|%s", rec.Call.Fn, shapeKey(g), rec.V.Side), true
		}
		if !rec.Res.OK() && edge && rec.V.Known {
			_, over := mustFailFor(rec, "C02")
			return sprintf("rejected-edge-amount|%s|%s|overdraft=%v", rec.Call.Fn, shapeKey(g), over), true
		}
		return "", false
	}})
}

// ---------------------------------------------------------------- C03

var c03Weights = baseWeights.with(Weights{"setrole": 14, "unsetrole": 6, "mint": 7, "localburn": 6, "create": 9, "addq": 6, "nftburn": 6, "adduri": 6, "update": 6,
	"freeze": 3, "unfreeze": 2, "wipe": 2, "pause": 2, "unpause": 2, "handover": 6, "deliver": 12, "changeowner": 7, "claim": 7, "setusername": 7, "mutate": 22,
	"transfer": 4, "nfttransfer": 3, "multi": 4, "gas": 0, "epoch": 0})

func roleSubset(rec *CallRecord, g *Gen) string {
	if len(rec.Call.Args) == 0 {
		return "-"
	}
	sh := rec.Call.Shard
	acc := g.e.M.Shards[sh].Accounts[string(rec.Call.Caller)]
	if acc == nil {
		return "none"
	}
	rs := append([]string{}, acc.Roles[string(rec.Call.Args[0])]...)
	sort.Strings(rs)
	other := 0
	for tok, r := range acc.Roles {
		if tok != string(rec.Call.Args[0]) {
			other += len(r)
		}
	}
	short := make([]string, len(rs))
	for i, r := range rs {
		short[i] = strings.TrimPrefix(r, "ESDTRole")
	}
	return sprintf("%s+other%d", strings.Join(short, "."), other)
}

func TestC03(t *testing.T) {
	runHistories(t, historyCfg{prop: "C03", weights: c03Weights, minSteps: 10, maxSteps: 60, templates: append(append([]func(g *Gen, run func(Op) bool){}, c03Templates...), awayRefundTemplates...), templateP: 4, nontrivial: func(rec *CallRecord, g *Gen) (string, bool) {
		fn := rec.Call.Fn
		if !(roleGatedFns[fn] || systemFns[fn] || accountFns[fn]) || !rec.V.Known {
			return "", false
		}
		_, unauth := mustFailFor(rec, "C03")
		unauth = unauth || hasLabel(rec, "unauthorised")
		if unauth {
			return sprintf("unauthorised|%s|%s|%s|caller-is-contract=%v", fn, outcomeOf(rec), roleSubset(rec, g), refIsSC(rec.Call.Caller)), true
		}
		if rec.Res.OK() {
			return sprintf("authorised|%s|%s|%s", fn, rec.V.Side, roleSubset(rec, g)), true
		}
		return "", false
	}})
}

// c03Templates: a role holder with every role but the required one / the required role for another token.
var c03Templates = []func(g *Gen, run func(Op) bool){
	func(g *Gen, run func(Op) bool) {
		m := g.e.M
		who := g.addr("t-who")
		tokF, tokF2 := []byte("FNG-a1b2c3"), []byte("FNH-d4e5f6")
		tokN := pickFrom(g, "t-tokN", [][]byte{[]byte("SFT-0a0b0c"), []byte("NFT-112233")})
		missing := g.pick("t-missing", len(allRoles))
		sys := func(fn string, args ...[]byte) bool { return run(callOp(g.sysCall(g.shard(who), fn, who, args...))) }
		// fungible roles
		var fr [][]byte
		for _, r := range allRoles[:2] {
			if r != allRoles[missing] {
				fr = append(fr, []byte(r))
			}
		}
		if !sys(refBuiltInFunctionESDTTransfer, tokF, []byte{100}) {
			return
		}
		if len(fr) > 0 && !sys(refBuiltInFunctionSetESDTRole, append([][]byte{tokF}, fr...)...) {
			return
		}
		// the required role, but for the OTHER fungible token
		if !sys(refBuiltInFunctionSetESDTRole, tokF2, []byte(refESDTRoleLocalMint), []byte(refESDTRoleLocalBurn)) {
			return
		}
		var nr [][]byte
		for _, r := range allRoles[2:] {
			if r != allRoles[missing] {
				if r == refESDTRoleNFTCreate {
					if _, busy := g.createRoleBusy(tokN); busy || m.Issued[string(tokN)] > 0 {
						continue
					}
				}
				nr = append(nr, []byte(r))
			}
		}
		if len(nr) > 0 && !sys(refBuiltInFunctionSetESDTRole, append([][]byte{tokN}, nr...)...) {
			return
		}
		// now every role-gated function once, by that account
		uri := [][]byte{[]byte("u")}
		calls := []*Call{
			g.selfCall(refBuiltInFunctionESDTLocalMint, who, tokF, []byte{5}),
			g.selfCall(refBuiltInFunctionESDTLocalBurn, who, tokF, []byte{5}),
			g.selfCall(refBuiltInFunctionESDTNFTCreate, who, tokN, []byte{2}, []byte("n"), []byte{1}, []byte("h"), []byte("a"), uri[0]),
			g.selfCall(refBuiltInFunctionESDTNFTCreate, who, tokN, []byte{1}, []byte("n"), []byte{1}, []byte("h"), []byte("a"), uri[0]),
		}
		for _, c := range calls {
			c.Gas = ampleGas
			if !run(callOp(c)) {
				return
			}
		}
		for _, kind := range []string{"addq", "nftburn", "adduri", "update"} {
			if !run(callOp(g.genOwnNFT(kind))) {
				return
			}
		}
	},
}

// ---------------------------------------------------------------- C04

var c04Weights = baseWeights.with(Weights{"freeze": 12, "unfreeze": 6, "wipe": 4, "pause": 9, "unpause": 6, "transfer": 12, "nfttransfer": 9, "multi": 12, "mint": 5, "localburn": 4,
	"burn": 4, "create": 8, "addq": 4, "nftburn": 4, "adduri": 4, "update": 4, "deliver": 18, "issue": 8, "setrole": 9, "gas": 0, "epoch": 0, "skv": 0})

// c04RoundTrip: freeze;unfreeze of one (account, token) or pause;unpause of one token on one shard, by the system contract.
func c04RoundTrip(g *Gen) []Op {
	if g.pick("rt-kind", 2) == 0 {
		rcv := g.addr("rt-rcv")
		token := g.tokenOfKind("rt-token", "F", "F", "SFT")
		if hs := g.holdings("F"); len(hs) > 0 && g.pick("rt-holder", 3) > 0 {
			h := hs[g.pick("rt-h", len(hs))]
			rcv, token = h.addr, h.token
		}
		if hs := g.holdings("N"); len(hs) > 0 && g.pick("rt-single-nft", 3) == 0 {
			// freezeSingleNFT ; unFreezeSingleNFT of a held (token, nonce) by its composed key: the entry carries metadata,
			// which the round trip has to leave as it was
			h := hs[g.pick("rt-nft-h", len(hs))]
			rcv, token = h.addr, []byte(h.suffix)
		}
		if g.e.M.acc(g.shard(rcv), rcv).entry(string(token)).Frozen {
			return nil // already frozen: unfreezing would change behaviour legitimately
		}
		return []Op{callOp(g.sysCall(g.shard(rcv), refBuiltInFunctionESDTFreeze, rcv, token)), callOp(g.sysCall(g.shard(rcv), refBuiltInFunctionESDTUnFreeze, rcv, token))}
	}
	sh := g.pick("rt-shard", g.e.M.NShards)
	token := g.tokenOfKind("rt-ptoken", "F", "SFT", "NFT")
	if g.e.M.paused(sh, token) {
		return nil
	}
	return []Op{callOp(g.sysCall(sh, refBuiltInFunctionESDTPause, refSystemAccount, token)), callOp(g.sysCall(sh, refBuiltInFunctionESDTUnPause, refSystemAccount, token))}
}

func TestC04(t *testing.T) {
	runHistories(t, historyCfg{prop: "C04", weights: c04Weights, minSteps: 12, maxSteps: 70, shadowOps: c04RoundTrip, shadowP: 3, templates: append(append([]func(g *Gen, run func(Op) bool){}, singleNFTTemplates...), awayRefundTemplates...), templateP: 8, nontrivial: func(rec *CallRecord, g *Gen) (string, bool) {
		callerKind := "user"
		if refIsSC(rec.Call.Caller) {
			callerKind = "contract"
		} else if isESDTSC(rec.Call.Caller) {
			callerKind = "system"
		}
		if sig, ok := mustFailFor(rec, "C04"); ok {
			return sprintf("attempt-while-flagged|%s|%s|%s|refund=%v|side=%s|type=%d|caller=%s|nargs=%d|delivery=%v|%s", rec.Call.Fn, sig, outcomeOf(rec), rec.Call.RetErr, rec.V.Side, rec.Call.CallType, callerKind, len(rec.Call.Args), rec.Call.MsgID != 0, shapeKey(g)), true
		}
		if rec.PreFrozenOrPaused {
			return sprintf("exempt-change|%s|%s|refund=%v|caller=%s|nargs=%d", rec.Call.Fn, rec.V.Side, rec.Call.RetErr, callerKind, len(rec.Call.Args)), true
		}
		return "", false
	}})
}

// ---------------------------------------------------------------- C05

var c05Weights = baseWeights.with(Weights{"skv": 30, "mutate": 12, "unstructured": 8, "gas": 0, "epoch": 0})

func TestC05(t *testing.T) {
	runHistories(t, historyCfg{prop: "C05", weights: c05Weights, minSteps: 10, maxSteps: 60, templates: singleNFTTemplates, templateP: 12, nontrivial: func(rec *CallRecord, g *Gen) (string, bool) {
		if rec.Call.Fn == refBuiltInFunctionSaveKeyValue {
			if _, ok := mustFailFor(rec, "C05"); ok {
				return sprintf("skv-must-reject|%s|%s", outcomeOf(rec), shapeKey(g)), true
			}
			if rec.Res.OK() && len(rec.Res.Diff) > 0 {
				return sprintf("skv-write|pairs=%d|changed=%d|%s", len(rec.Call.Args)/2, len(rec.Res.Diff), shapeKey(g)), true
			}
			return "", false
		}
		if rec.Res.OK() && len(rec.Res.Diff) > 0 {
			classes := map[string]bool{}
			for _, d := range rec.Res.Diff {
				switch {
				case strings.HasPrefix(d.Key, pfxESDT):
					classes["balance"] = true
				case strings.HasPrefix(d.Key, pfxRole):
					classes["roles"] = true
				case strings.HasPrefix(d.Key, pfxNonce):
					classes["counter"] = true
				default:
					classes[d.Key] = true
				}
			}
			ks := make([]string, 0)
			for k := range classes {
				ks = append(ks, k)
			}
			sort.Strings(ks)
			return sprintf("frame|%s|%s|%s|accounts=%d", rec.Call.Fn, rec.V.Side, strings.Join(ks, "+"), len(rec.Res.Diff)), true
		}
		return "", false
	}})
}

// ---------------------------------------------------------------- C06

var c06Weights = baseWeights.with(Weights{"skv": 14, "changeowner": 6, "claim": 6, "setusername": 6, "gas": 3, "mutate": 6, "unstructured": 3})

func gasClass(rec *CallRecord) string {
	if rec.V.Charge == nil {
		return "unpriced"
	}
	c, gas := *rec.V.Charge, rec.Call.Gas
	switch {
	case gas == 0:
		return "0"
	case gas+1 == c:
		return "charge-1"
	case gas < c:
		return "below"
	case gas == c:
		return "charge"
	case gas == c+1:
		return "charge+1"
	case gas == ^uint64(0):
		return "max"
	}
	return "above"
}

// c06Sweep re-executes every distinct successful scenario on clones over the whole gas grid of the statement.
func c06Sweep(seen map[string]bool) func(e *Engine, st *Stats) {
	return func(e *Engine, st *Stats) {
		e.PreExec = func(c *Call) []Clause {
			v := e.M.Judge(c)
			if !v.Known {
				return nil
			}
			key := sprintf("%s/%s/nargs=%d/type=%d/msg=%v/size=%d", c.Fn, v.Side, len(c.Args), c.CallType, c.MsgID != 0, inputSize(c)/32)
			if seen != nil {
				if seen[key] {
					return nil
				}
			}
			probe := *c
			probe.Gas = ampleGas
			if r := e.W.Clone().Exec(&probe); !r.OK() {
				return nil
			}
			if seen != nil {
				seen[key] = true
			}
			st.AddExtra("gas_sweep_scenarios", 1)
			charge := uint64(0)
			if v.Charge != nil {
				charge = *v.Charge
				for _, a := range v.ChargeAlt {
					if a < charge {
						charge = a
					}
				}
			}
			grid := []uint64{0, 1, charge - 1, charge, charge + 1, 2 * charge, 1 << 32, 1 << 63, ^uint64(0), ^uint64(0) - 1}
			var out []Clause
			for _, gas := range grid {
				if charge == 0 && gas == ^uint64(0) && v.Charge != nil {
					continue
				}
				cc := *c
				cc.Gas = gas
				r := e.W.Clone().Exec(&cc)
				st.Eval(1)
				if !r.OK() {
					st.Label("sweep/rejected")
					continue
				}
				st.Label("sweep/accepted")
				st.NT(sprintf("sweep|%s|gas-vs-charge=%s", key, gasClass(&CallRecord{Call: &cc, V: v})))
				provided := new(big.Int).SetUint64(gas)
				spent := new(big.Int).Add(new(big.Int).SetUint64(r.Out.GasRemaining), sumGasLimits(r.Out))
				if spent.Cmp(provided) > 0 {
					out = append(out, clause([]string{"C06"}, c.Fn+"/gas-created", "%s: GasRemaining %d + forwarded %v exceeds GasProvided %d", cc.String(), r.Out.GasRemaining, sumGasLimits(r.Out), gas))
					continue
				}
				if v.Charge != nil && gas < charge && spent.Sign() != 0 {
					out = append(out, clause([]string{"C06"}, c.Fn+"/undercharged", "%s succeeded with GasProvided %d below its charge %d and kept/forwarded %v of it", cc.String(), gas, charge, spent))
				}
			}
			return out
		}
	}
}

func TestC06(t *testing.T) {
	seen := map[string]bool{}
	runHistories(t, historyCfg{prop: "C06", weights: c06Weights, minSteps: 10, maxSteps: 50, gasBias: "tight", setup: c06Sweep(seen), nontrivial: func(rec *CallRecord, g *Gen) (string, bool) {
		gc := gasClass(rec)
		if rec.Res.OK() && rec.V.Charge != nil && rec.Call.Gas <= *rec.V.Charge+1 {
			return sprintf("tight-success|%s|%s|%s|%s", rec.Call.Fn, rec.V.Side, gc, shapeKey(g)), true
		}
		if rec.Res.Err != nil && strings.Contains(rec.Res.Err.Error(), "not enough gas") {
			return sprintf("rejected-for-gas|%s|%s|%s|%s", rec.Call.Fn, rec.V.Side, gc, shapeKey(g)), true
		}
		return "", false
	}})
}

// ---------------------------------------------------------------- C07

var c07Weights = baseWeights.with(Weights{"create": 22, "nftburn": 7, "nfttransfer": 8, "multi": 5, "handover": 14, "seedhandover": 4, "deliver": 18, "redeliver": 8, "setrole": 12,
	"transfer": 2, "mint": 1, "localburn": 1, "burn": 1, "freeze": 1, "unfreeze": 1, "wipe": 0, "pause": 1, "unpause": 1, "skv": 0, "gas": 0, "epoch": 0, "changeowner": 0, "claim": 0, "setusername": 0, "mutate": 6, "unstructured": 2})

func TestC07(t *testing.T) {
	// per-history memory of what happened to each token before a create
	type hist struct{ events map[string][]string }
	cur := &hist{}
	var curEngine *Engine
	runHistories(t, historyCfg{prop: "C07", weights: c07Weights, minSteps: 15, maxSteps: 80, templates: c07Templates, templateP: 5,
		setup: func(e *Engine, st *Stats) { cur = &hist{events: map[string][]string{}}; curEngine = e },
		nontrivial: func(rec *CallRecord, g *Gen) (string, bool) {
			_ = curEngine
			if !rec.Res.OK() || len(rec.Call.Args) == 0 {
				return "", false
			}
			tok := string(rec.Call.Args[0])
			note := func(ev string) {
				evs := cur.events[tok]
				if len(evs) == 0 || evs[len(evs)-1] != ev {
					cur.events[tok] = append(evs, ev)
				}
			}
			switch rec.Call.Fn {
			case refBuiltInFunctionESDTNFTBurn:
				note("burn")
			case refBuiltInFunctionESDTNFTTransfer:
				note("transfer-away")
			case refBuiltInFunctionESDTNFTCreateRoleTransfer:
				if rec.Call.MsgID != 0 {
					if rec.Call.Redeliver {
						note("handover-redelivered")
					} else {
						note("handover-delivered-cross-shard")
					}
				} else if hasLabel(rec, "handover/at-current-holder") {
					note("handover-started")
				}
			case refBuiltInFunctionESDTNFTCreate:
				evs := cur.events[tok]
				if len(evs) == 0 {
					note("create")
					return "", false
				}
				key := sprintf("create-after|%s|counter-bytes=%d", strings.Join(evs, ">"), len(rec.Res.Out.ReturnData[0]))
				cur.events[tok] = []string{"create"}
				if key == "create-after|create|counter-bytes=1" {
					return "", false
				}
				return key, true
			}
			return "", false
		}})
}

// singleNFTTemplates: the system contract's freezeSingleNFT / unFreezeSingleNFT / wipeSingleNFT on a holding whose nonce has
// bytes that mean something elsewhere ('-' separates ticker and suffix of an identifier, '@' separates arguments): the
// create role arrives by a hand-over message with a counter just below such a nonce, the holder creates, the system
// contract freezes (then unfreezes or wipes) exactly that (token, nonce) by its composed key.
var singleNFTTemplates = []func(g *Gen, run func(Op) bool){
	func(g *Gen, run func(Op) bool) {
		m := g.e.M
		tok := pickFrom(g, "ts-tok", [][]byte{[]byte("SFT-0a0b0c"), []byte("NFT-112233")})
		if _, busy := g.createRoleBusy(tok); busy || m.Issued[string(tok)] > 0 || m.NShards < 2 {
			return
		}
		a := g.addr("ts-a")
		ext := bytes.Repeat([]byte{0x99}, 32)
		ext[31] = byte((g.shard(a) + 1) % m.NShards)
		cnt := pickFrom(g, "ts-counter", []uint64{0x012c, 0x2d2c, 0x2d00, 0x013f, 0x2c, 0x3f})
		if !run(Op{Kind: "seed-handover", Call: &Call{Fn: refBuiltInFunctionESDTNFTCreateRoleTransfer, Caller: ext, Rcv: cp(a), Args: hbs(tok, beNonce(cnt))}}) {
			return
		}
		if !run(g.byKind("deliver")) {
			return
		}
		if !m.acc(g.shard(a), a).hasRole(tok, refESDTRoleNFTCreate) {
			return
		}
		if !run(callOp(g.sysCall(g.shard(a), refBuiltInFunctionSetESDTRole, a, tok, []byte(refESDTRoleNFTAddQuantity)))) {
			return
		}
		c := g.selfCall(refBuiltInFunctionESDTNFTCreate, a, tok, []byte{3}, []byte("n"), []byte{}, []byte("h"), []byte{}, []byte("u"))
		c.Gas, c.CallType, c.GasLocked = ampleGas, 0, 0
		if !run(callOp(c)) {
			return
		}
		key := append(cp(tok), beNonce(cnt+1)...)
		if !run(callOp(g.sysCall(g.shard(a), refBuiltInFunctionESDTFreeze, a, key))) {
			return
		}
		switch g.pick("ts-then", 3) {
		case 0:
			run(callOp(g.sysCall(g.shard(a), refBuiltInFunctionESDTUnFreeze, a, key)))
		case 1:
			run(callOp(g.sysCall(g.shard(a), refBuiltInFunctionESDTWipe, a, key)))
		}
	},
}

// awayRefundTemplates: an NFT / SFT leaves its holder towards another shard (single or multi transfer); while it travels the
// system contract freezes that (token, nonce) by its composed key at the destination (so the delivery is refused and the
// tokens come back) and - usually - at the sender as well, which holds none or only the rest of it: the flag then lives in a
// zero-value entry without metadata (or beside the remainder). The refund must be accepted, must not touch either flag, and
// the sender must stay unable to move the tokens until the system contract unfreezes it.
var awayRefundTemplates = []func(g *Gen, run func(Op) bool){
	func(g *Gen, run func(Op) bool) {
		m := g.e.M
		tok := pickFrom(g, "ar-tok", [][]byte{[]byte("SFT-0a0b0c"), []byte("NFT-112233")})
		if _, busy := g.createRoleBusy(tok); busy || m.Issued[string(tok)] > 0 || m.NShards < 2 {
			return
		}
		a := g.addr("ar-a")
		var far [][]byte
		for _, h := range g.holders {
			if g.shard(h) != g.shard(a) {
				far = append(far, h)
			}
		}
		if len(far) == 0 {
			return
		}
		b := far[g.pick("ar-b", len(far))]
		if !run(callOp(g.sysCall(g.shard(a), refBuiltInFunctionSetESDTRole, a, tok, []byte(refESDTRoleNFTCreate), []byte(refESDTRoleNFTAddQuantity)))) {
			return
		}
		total := pickFrom(g, "ar-total", []uint64{1, 3})
		c := g.selfCall(refBuiltInFunctionESDTNFTCreate, a, tok, beNonce(total), []byte("n"), []byte{}, []byte("h"), []byte("a"), []byte("u"))
		c.Gas, c.CallType, c.GasLocked = ampleGas, 0, 0
		if !run(callOp(c)) {
			return
		}
		nonce := beNonce(1)
		key := append(cp(tok), nonce...)
		qty := beNonce(pickFrom(g, "ar-qty", []uint64{1, total}))
		send := func() *Call {
			var call *Call
			if g.pick("ar-via", 2) == 0 {
				call = g.selfCall(refBuiltInFunctionESDTNFTTransfer, a, tok, nonce, qty, b)
			} else {
				call = g.selfCall(refBuiltInFunctionMultiESDTNFTTransfer, a, b, []byte{1}, tok, nonce, qty)
			}
			call.Gas, call.CallType, call.GasLocked = ampleGas, 0, 0
			return call
		}
		if !run(callOp(send())) {
			return
		}
		g.Shape = append(g.Shape[:0], "away-refund")
		if !run(callOp(g.sysCall(g.shard(b), refBuiltInFunctionESDTFreeze, b, key))) {
			return
		}
		if g.pick("ar-freeze-sender", 4) > 0 {
			if !run(callOp(g.sysCall(g.shard(a), refBuiltInFunctionESDTFreeze, a, key))) {
				return
			}
		}
		// the refused delivery, then the refund
		for round := 0; round < 2; round++ {
			for _, msg := range m.pendingMsgs() {
				if msg.Kind != "transfer" || len(msg.Items) == 0 || msg.Items[0].Suffix != string(key) {
					continue
				}
				if !run(callOp(g.e.DeliveryCall(msg))) {
					return
				}
			}
		}
		if !run(callOp(send())) {
			return
		}
		switch g.pick("ar-then", 3) {
		case 0:
			if run(callOp(g.sysCall(g.shard(a), refBuiltInFunctionESDTUnFreeze, a, key))) {
				run(callOp(send()))
			}
		case 1:
			run(callOp(g.sysCall(g.shard(a), refBuiltInFunctionESDTWipe, a, key)))
		}
	},
}

var c07Templates = []func(g *Gen, run func(Op) bool){
	// create -> hand-over (same or cross shard, delivered, possibly re-delivered) -> create by the new holder
	func(g *Gen, run func(Op) bool) {
		tok := pickFrom(g, "t7-tok", [][]byte{[]byte("SFT-0a0b0c"), []byte("NFT-112233")})
		if _, busy := g.createRoleBusy(tok); busy || g.e.M.Issued[string(tok)] > 0 {
			return
		}
		a := g.addr("t7-a")
		b := g.other("t7-b", a)
		if !run(callOp(g.sysCall(g.shard(a), refBuiltInFunctionSetESDTRole, a, tok, []byte(refESDTRoleNFTCreate), []byte(refESDTRoleNFTAddQuantity), []byte(refESDTRoleNFTBurn)))) {
			return
		}
		mk := func(who []byte) *Call {
			c := g.selfCall(refBuiltInFunctionESDTNFTCreate, who, tok, []byte{1}, []byte("n"), []byte{}, []byte("h"), []byte{}, []byte("u"))
			c.Gas = ampleGas
			return c
		}
		n := 1 + g.pick("t7-ncreate", 3)
		for i := 0; i < n; i++ {
			if !run(callOp(mk(a))) {
				return
			}
		}
		if g.pick("t7-burn-latest", 2) == 0 {
			c := g.selfCall(refBuiltInFunctionESDTNFTBurn, a, tok, beNonce(uint64(n)), []byte{1})
			c.Gas = ampleGas
			if !run(callOp(c)) {
				return
			}
		}
		if !run(callOp(g.sysCall(g.shard(a), refBuiltInFunctionESDTNFTCreateRoleTransfer, a, tok, b))) {
			return
		}
		// nobody may create while the hand-over is in flight
		if !run(callOp(mk(a))) {
			return
		}
		if g.shard(a) != g.shard(b) {
			if !run(callOp(mk(b))) {
				return
			}
			for _, msg := range g.e.M.pendingMsgs() {
				if msg.Kind == "handover" && bytes.Equal(msg.Token, tok) {
					if !run(callOp(g.e.DeliveryCall(msg))) {
						return
					}
					if g.pick("t7-redeliver", 2) == 0 {
						c := g.e.DeliveryCall(msg)
						c.Redeliver = true
						g.Shape = append(g.Shape, "handover-redelivered")
						if !run(callOp(c)) {
							return
						}
					}
				}
			}
		}
		run(callOp(mk(b)))
	},
}

// ---------------------------------------------------------------- C08

var c08Weights = baseWeights.with(Weights{"plant": 4, "payable": 5, "create": 16, "nfttransfer": 18, "multi": 14, "deliver": 22, "adduri": 8, "update": 8, "setrole": 12, "addq": 3, "nftburn": 2,
	"transfer": 2, "mint": 1, "localburn": 1, "burn": 1, "skv": 0, "gas": 0, "epoch": 0, "changeowner": 0, "claim": 0, "setusername": 0})

func metaPattern(m *RefMeta) string {
	if m == nil {
		return "none"
	}
	b := func(x bool) string {
		if x {
			return "1"
		}
		return "0"
	}
	return "name" + b(len(m.Name) > 0) + "hash" + b(len(m.Hash) > 0) + "attrs" + b(len(m.Attributes) > 0) + sprintf("uris%d", len(m.URIs)) + "roy" + b(m.Royalties > 0)
}

func TestC08(t *testing.T) {
	runHistories(t, historyCfg{prop: "C08", weights: c08Weights, minSteps: 12, maxSteps: 70, nontrivial: func(rec *CallRecord, g *Gen) (string, bool) {
		if _, ok := mustFailFor(rec, "C08"); ok {
			return sprintf("must-reject|%s|%s", rec.Call.Fn, outcomeOf(rec)), true
		}
		if !rec.Res.OK() {
			return "", false
		}
		if hasLabel(rec, "metadata-update") {
			return sprintf("update|%s", rec.Call.Fn), true
		}
		var items []Item
		if len(rec.V.msgItems) > 0 {
			items = rec.V.msgItems
		} else if msg := g.e.M.msg(rec.Call.MsgID); msg != nil {
			items = msg.Items
		}
		for _, it := range items {
			if it.Meta != nil && (len(it.Meta.Name) > 0 || len(it.Meta.Hash) > 0 || len(it.Meta.Attributes) > 0 || len(it.Meta.URIs) > 0) {
				return sprintf("hop|%s|%s|%s|items=%d", rec.Call.Fn, rec.V.Side, metaPattern(it.Meta), len(items)), true
			}
		}
		return "", false
	}})
}

// ---------------------------------------------------------------- C09

var c09Weights = baseWeights.with(Weights{"payable": 14, "transfer": 16, "nfttransfer": 14, "multi": 18, "deliver": 22, "issue": 9, "create": 9, "setrole": 8, "mutate": 10,
	"skv": 0, "gas": 0, "epoch": 0, "changeowner": 0, "claim": 0, "setusername": 0, "freeze": 1, "pause": 1})

func TestC09(t *testing.T) {
	runHistories(t, historyCfg{prop: "C09", weights: c09Weights, minSteps: 12, maxSteps: 60, before: c09Sweep, nontrivial: func(rec *CallRecord, g *Gen) (string, bool) {
		if !transferFns[rec.Call.Fn] {
			return "", false
		}
		if sig, ok := mustFailFor(rec, "C09"); ok {
			return sprintf("must-reject|%s|%s|%s|type=%d|side=%s|nargs=%d|caller-contract=%v|%s", rec.Call.Fn, sig, outcomeOf(rec), rec.Call.CallType, rec.V.Side, len(rec.Call.Args), refIsSC(rec.Call.Caller), shapeKey(g)), true
		}
		if rec.NonPayableDest {
			return sprintf("exempt-credit|%s|%s|type=%d|system=%v|refund=%v|nargs=%d", rec.Call.Fn, rec.V.Side, rec.Call.CallType, isESDTSC(rec.Call.Caller), rec.Call.RetErr, len(rec.Call.Args)), true
		}
		return "", false
	}})
}

// ---------------------------------------------------------------- C10

var c10Weights = c01Weights.with(Weights{"setusername": 3, "handover": 4})

func TestC10(t *testing.T) {
	runHistories(t, historyCfg{prop: "C10", weights: c10Weights, minSteps: 10, maxSteps: 60, nontrivial: func(rec *CallRecord, g *Gen) (string, bool) {
		if !rec.Res.OK() || !isTransfer(rec) || !rec.V.Known {
			return "", false
		}
		nft := false
		for _, it := range rec.V.msgItems {
			if it.Meta != nil {
				nft = true
			}
		}
		interesting := hasShape(g, "attached-call") || len(rec.V.msgItems) >= 2 || nft || hasShape(g, "leading-zero-number") || rec.Call.MsgID != 0
		if !interesting {
			return "", false
		}
		return sprintf("transfer|%s|%s|%s|nft=%v|nargs=%d|delivery=%v", rec.Call.Fn, rec.V.Side, shapeKey(g), nft, len(rec.Call.Args), rec.Call.MsgID != 0), true
	}})
}

// ---------------------------------------------------------------- C11

var c11Weights = baseWeights.with(Weights{"mutate": 40, "unstructured": 40, "deliver": 12})

func errClass(rec *CallRecord) string {
	if rec.Res.Err == nil {
		return outcomeOf(rec)
	}
	m := rec.Res.Err.Error()
	if len(m) > 28 {
		m = m[:28]
	}
	return m
}

// c11Templates: a role holder that owns an NFT AND has an entry under the plain (nonce-less) key of the same token (a
// freeze flag), then every nonce-taking function with hostile encodings of the nonce.
var c11Templates = []func(g *Gen, run func(Op) bool){
	func(g *Gen, run func(Op) bool) {
		tok := pickFrom(g, "t11-tok", [][]byte{[]byte("SFT-0a0b0c"), []byte("NFT-112233")})
		if _, busy := g.createRoleBusy(tok); busy || g.e.M.Issued[string(tok)] > 0 {
			return
		}
		a := g.addr("t11-a")
		b := g.dest("t11-b", a)
		roles := [][]byte{tok}
		for _, r := range allRoles[2:] {
			roles = append(roles, []byte(r))
		}
		if !run(callOp(g.sysCall(g.shard(a), refBuiltInFunctionSetESDTRole, a, roles...))) {
			return
		}
		c := g.selfCall(refBuiltInFunctionESDTNFTCreate, a, tok, []byte{5}, []byte("n"), []byte{}, []byte("h"), []byte("a"), []byte("u"))
		c.Gas = ampleGas
		if !run(callOp(c)) {
			return
		}
		if g.pick("t11-freeze", 3) > 0 {
			if !run(callOp(g.sysCall(g.shard(a), refBuiltInFunctionESDTFreeze, a, tok))) {
				return
			}
		}
		nonces := [][]byte{{}, {0}, {0, 0, 0, 0, 0, 0, 0, 0, 0}, {1, 0, 0, 0, 0, 0, 0, 0, 0}, {1, 0, 0, 0, 0, 0, 0, 0, 1}, {0xff, 0xff, 0xff, 0xff, 0xff, 0xff, 0xff, 0xff}, {2, 0, 0, 0, 0, 0, 0, 0, 0, 0, 0, 0, 0, 0, 0, 0, 0}}
		for _, fn := range []string{refBuiltInFunctionESDTNFTUpdateAttributes, refBuiltInFunctionESDTNFTAddURI, refBuiltInFunctionESDTNFTAddQuantity, refBuiltInFunctionESDTNFTBurn, refBuiltInFunctionESDTNFTTransfer, refBuiltInFunctionMultiESDTNFTTransfer} {
			nb := nonces[g.pick("t11-nonce", len(nonces))]
			var call *Call
			switch fn {
			case refBuiltInFunctionESDTNFTTransfer:
				call = g.selfCall(fn, a, tok, nb, []byte{1}, b)
			case refBuiltInFunctionMultiESDTNFTTransfer:
				call = g.selfCall(fn, a, b, []byte{1}, tok, nb, []byte{1})
			default:
				call = g.selfCall(fn, a, tok, nb, []byte{1})
			}
			call.Gas = ampleGas
			g.Layer = "G2"
			g.Shape = append(g.Shape[:0], "hostile-nonce", "plain-key-entry")
			if !run(callOp(call)) {
				return
			}
		}
	},
}

// the same hostile nonce encodings against a FUNGIBLE holding: a nonce argument whose low 64 bits are zero (nine bytes
// 01 00..00) must not make a nonce-taking function read the plain balance entry as "NFT with nonce 0".
func init() {
	c11Templates = append(c11Templates, func(g *Gen, run func(Op) bool) {
		tok := pickFrom(g, "t11f-tok", [][]byte{[]byte("FNG-a1b2c3"), []byte("FNH-d4e5f6")})
		a := g.addr("t11f-a")
		b := g.dest("t11f-b", a)
		if !run(callOp(g.sysCall(g.shard(a), refBuiltInFunctionESDTTransfer, a, tok, []byte{50}))) {
			return
		}
		nonces := [][]byte{{1, 0, 0, 0, 0, 0, 0, 0, 0}, {0}, {}, {0, 0, 0, 0, 0, 0, 0, 0, 0}, {0xff, 0, 0, 0, 0, 0, 0, 0, 0}, {2, 0, 0, 0, 0, 0, 0, 0, 0, 0, 0, 0, 0, 0, 0, 0, 0}}
		for _, fn := range []string{refBuiltInFunctionESDTNFTTransfer, refBuiltInFunctionMultiESDTNFTTransfer, refBuiltInFunctionESDTNFTBurn, refBuiltInFunctionESDTNFTAddQuantity, refBuiltInFunctionESDTNFTTransfer} {
			nb := nonces[g.pick("t11f-nonce", len(nonces))]
			var call *Call
			switch fn {
			case refBuiltInFunctionESDTNFTTransfer:
				call = g.selfCall(fn, a, tok, nb, []byte{1}, b)
			case refBuiltInFunctionMultiESDTNFTTransfer:
				call = g.selfCall(fn, a, b, []byte{1}, tok, nb, []byte{1})
			default:
				call = g.selfCall(fn, a, tok, nb, []byte{1})
			}
			call.Gas = ampleGas
			g.Layer = "G2"
			g.Shape = append(g.Shape[:0], "hostile-nonce", "fungible-holding")
			if !run(callOp(call)) {
				return
			}
		}
	})
}

func TestC11(t *testing.T) {
	runHistories(t, historyCfg{prop: "C11", weights: c11Weights, minSteps: 10, maxSteps: 60, templates: c11Templates, templateP: 6, nontrivial: func(rec *CallRecord, g *Gen) (string, bool) {
		if g.Layer != "G2" && g.Layer != "G3" {
			return "", false
		}
		hostile := hasShape(g, "wrap-residue") || hasShape(g, "alias") || hasShape(g, "big-count") || hasShape(g, "hostile-nonce") || hasShape(g, "nine-byte-number")
		pastCount := rec.Res.Err == nil || !(strings.Contains(rec.Res.Err.Error(), "invalid arguments") || strings.Contains(rec.Res.Err.Error(), "nil "))
		if !hostile && !pastCount {
			return "", false
		}
		return sprintf("hostile|%s|%s|%s|%s|nargs=%d", rec.Call.Fn, g.Layer, shapeKey(g), errClass(rec), len(rec.Call.Args)), true
	}})
}

// ---------------------------------------------------------------- C15

var c15Weights = baseWeights.with(Weights{"gas": 0, "epoch": 0})

func TestC15(t *testing.T) {
	runHistories(t, historyCfg{prop: "C15", weights: c15Weights, minSteps: 100, maxSteps: 300,
		before: func(t *testing.T, st *Stats) { c15Enumerate(t, st, EnvInt("VERIF_C15_DEPTH", 3)) }, nontrivial: func(rec *CallRecord, g *Gen) (string, bool) {
			if !rec.Res.OK() || len(rec.Res.Diff) == 0 {
				return "", false
			}
			var parts []string
			for _, d := range rec.Res.Diff {
				if !strings.HasPrefix(d.Key, refProtectedPrefix) {
					continue
				}
				kind := "balance"
				if strings.HasPrefix(d.Key, pfxRole) {
					kind = "roles"
				} else if strings.HasPrefix(d.Key, pfxNonce) {
					kind = "counter"
				} else if bytes.Equal([]byte(d.Account), refSystemAccount) {
					kind = "pause"
				}
				tr := "rewritten"
				if len(d.Old) == 0 {
					tr = "added"
				} else if len(d.New) == 0 {
					tr = "removed"
				}
				parts = append(parts, kind+":"+tr)
			}
			if len(parts) == 0 {
				return "", false
			}
			sort.Strings(parts)
			return sprintf("entry-change|%s|%s|%s", rec.Call.Fn, rec.V.Side, strings.Join(parts, "+")), true
		}})
}

// ---------------------------------------------------------------- C16

var c16Weights = baseWeights.with(Weights{"gas": 12, "skv": 8, "changeowner": 4, "claim": 4, "setusername": 4, "adduri": 5, "update": 5, "create": 9, "mutate": 3, "unstructured": 1})

func TestC16(t *testing.T) {
	changes := 0
	lastValid := true
	runHistories(t, historyCfg{prop: "C16", weights: c16Weights, minSteps: 10, maxSteps: 60,
		setup: func(e *Engine, st *Stats) { changes = 0; lastValid = true },
		nontrivial: func(rec *CallRecord, g *Gen) (string, bool) {
			// count schedule changes seen so far in this history
			changes, lastValid = 0, true
			for _, op := range g.e.Ops {
				if op.Kind == "gas" && op.Shard == rec.Call.Shard {
					changes++
					lastValid = GasValid(op.Gas)
				}
			}
			if !rec.Res.OK() || rec.V.Charge == nil || changes == 0 || rec.Call.Gas < *rec.V.Charge {
				return "", false
			}
			nc := changes
			if nc > 3 {
				nc = 3
			}
			size := inputSize(rec.Call) / 64
			return sprintf("priced|%s|%s|changes=%d|last-valid=%v|size=%d", rec.Call.Fn, rec.V.Side, nc, lastValid, size), true
		}})
}

func init() {
	for _, p := range []string{"C02", "C03", "C04", "C05", "C07", "C08", "C09", "C10", "C11", "C15", "C16"} {
		replayers[p] = replayHistory([]string{p}, nil)
	}
	replayers["C06"] = replayHistory([]string{"C06"}, c06Sweep(nil))
}
