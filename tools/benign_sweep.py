#!/usr/bin/env python3
"""False-alarm sweep: hand-written PROPERTY-PRESERVING variants (textual replacements) applied to scratch copies of
/repo HEAD; every one of the 20 quick checks must stay silent.   usage: benign_sweep.py [name-filter]"""
import os, shutil, subprocess, sys, tempfile
ROOT = os.path.dirname(os.path.dirname(os.path.abspath(__file__)))
ENV = dict(os.environ, GOFLAGS="-mod=mod", GOPROXY="off", GOSUMDB="off", GOTOOLCHAIN="local")
B = "builtInFunctions/"
ALL = ["C%02d" % i for i in range(1, 21)]
VARIANTS = [
    ("reorder-value-check-before-metachain", B + "esdtTransfer.go",
     "\tif e.shardCoordinator.ComputeId(vmInput.RecipientAddr) == vmcommon.MetachainShardId {\n\t\treturn nil, ErrInvalidRcvAddr\n\t}\n\n\tvalue := big.NewInt(0).SetBytes(vmInput.Arguments[1])\n\tif value.Cmp(zero) <= 0 {\n\t\treturn nil, ErrNegativeValue\n\t}\n",
     "\tvalue := big.NewInt(0).SetBytes(vmInput.Arguments[1])\n\tif value.Cmp(zero) <= 0 {\n\t\treturn nil, ErrNegativeValue\n\t}\n\tif e.shardCoordinator.ComputeId(vmInput.RecipientAddr) == vmcommon.MetachainShardId {\n\t\treturn nil, ErrInvalidRcvAddr\n\t}\n"),
    ("nfttransfer-rejects-zero-quantity-on-sender", B + "esdtNFTTransfer.go",
     "\tquantityToTransfer := big.NewInt(0).SetBytes(vmInput.Arguments[2])\n",
     "\tquantityToTransfer := big.NewInt(0).SetBytes(vmInput.Arguments[2])\n\tif quantityToTransfer.Cmp(zero) <= 0 {\n\t\treturn nil, ErrInvalidNFTQuantity\n\t}\n"),
    ("local-mint-burn-accept-zero", B + "esdtLocalBurn.go", "\tif value.Cmp(zero) <= 0 {\n\t\treturn ErrNegativeValue\n\t}\n\tif vmInput.GasProvided < funcGasCost {", "\tif value.Cmp(zero) < 0 {\n\t\treturn ErrNegativeValue\n\t}\n\tif vmInput.GasProvided < funcGasCost {"),
    ("error-message-changed", B + "errors.go", 'errors.New("negative value")', 'errors.New("value must be strictly positive")'),
    ("destination-side-keeps-gas", B + "changeOwnerAddress.go", "\tif check.IfNil(snd) {\n\t\treturn 0\n\t}", "\tif check.IfNil(snd) {\n\t\treturn gasProvided // nothing is charged on the destination shard\n\t}"),
    ("same-shard-nft-no-payload-charge", B + "esdtNFTTransfer.go", "\tgasForTransfer := uint64(len(marshaledNFTTransfer)) * e.gasConfig.DataCopyPerByte\n", "\tgasForTransfer := uint64(len(marshaledNFTTransfer)) * e.gasConfig.DataCopyPerByte\n\tif e.shardCoordinator.SelfId() == e.shardCoordinator.ComputeId(dstAddress) {\n\t\tgasForTransfer = 0 // only data which travels to another shard is copied\n\t}\n"),
    ("fungible-entries-always-carry-two-property-bytes", B + "esdtTransfer.go", "\tmarshaledData, err := marshalizer.Marshal(esdtData)\n\tif err != nil {\n\t\treturn err\n\t}\n\n\treturn userAcnt.AccountDataHandler().SaveKeyValue(key, marshaledData)", "\tif len(esdtData.Properties) == 0 {\n\t\tesdtData.Properties = make([]byte, lengthOfESDTMetadata)\n\t}\n\tmarshaledData, err := marshalizer.Marshal(esdtData)\n\tif err != nil {\n\t\treturn err\n\t}\n\n\treturn userAcnt.AccountDataHandler().SaveKeyValue(key, marshaledData)"),
    ("setrole-skips-roles-already-held", B + "esdtRoles.go", "\t\troles.Roles = append(roles.Roles, vmInput.Arguments[1:]...)\n", "\t\tfor _, newRole := range vmInput.Arguments[1:] {\n\t\t\tif _, exists := doesRoleExist(roles, newRole); !exists {\n\t\t\t\troles.Roles = append(roles.Roles, newRole)\n\t\t\t}\n\t\t}\n"),
    ("freeze-of-frozen-account-is-an-error", B + "esdtFreezeWipe.go", "\tesdtUserMetadata := ESDTUserMetadataFromBytes(tokenData.Properties)\n\tesdtUserMetadata.Frozen = e.freeze\n", "\tesdtUserMetadata := ESDTUserMetadataFromBytes(tokenData.Properties)\n\tif esdtUserMetadata.Frozen && e.freeze {\n\t\treturn ErrESDTIsFrozenForAccount\n\t}\n\tesdtUserMetadata.Frozen = e.freeze\n"),
    ("transfer-log-identifier-and-extra-topic", B + "logsAndEvents.go", "\t\tTopics:     [][]byte{tokenID, value.Bytes()},\n", "\t\tTopics:     [][]byte{tokenID, value.Bytes(), []byte(\"v2\")},\n"),
    ("return-message-set-on-success", B + "esdtLocalMint.go", "vmOutput := &vmcommon.VMOutput{ReturnCode: vmcommon.Ok, GasRemaining: vmInput.GasProvided - e.funcGasCost}", "vmOutput := &vmcommon.VMOutput{ReturnCode: vmcommon.Ok, ReturnMessage: \"minted\", GasRemaining: vmInput.GasProvided - e.funcGasCost}"),
    ("callargs-preallocates", "parsers/callArgsParser.go", "\targuments := make([][]byte, 0)\n", "\targuments := make([][]byte, 0, len(tokens))\n"),
    ("changeowner-rejects-unchanged-owner", B + "changeOwnerAddress.go", "\terr := acntDst.ChangeOwnerAddress(vmInput.CallerAddr, vmInput.Arguments[0])", "\tif bytes.Equal(vmInput.Arguments[0], acntDst.GetOwnerAddress()) {\n\t\treturn nil, ErrOperationNotPermitted\n\t}\n\terr := acntDst.ChangeOwnerAddress(vmInput.CallerAddr, vmInput.Arguments[0])"),
    ("roles-stored-sorted", B + "esdtNFTCreateRoleTransfer.go", "\tmarshaledData, err := marshalizer.Marshal(roles)\n", "\tsort.Slice(roles.Roles, func(i, j int) bool { return bytes.Compare(roles.Roles[i], roles.Roles[j]) < 0 })\n\tmarshaledData, err := marshalizer.Marshal(roles)\n"),
    ("skv-charges-persist-for-unchanged-too-and-checks-gas-first", B + "keyValueStorage.go", "\t\tif !vmcommon.IsAllowedToSaveUnderKey(key) {", "\t\tif input.GasProvided < useGas {\n\t\t\treturn nil, ErrNotEnoughGas\n\t\t}\n\t\tif !vmcommon.IsAllowedToSaveUnderKey(key) {"),
    ("multi-rejects-more-than-100-transfers", B + "multiESDTNFTTransfer.go", "\tmultiTransferCost := numOfTransfers * e.funcGasCost\n", "\tif numOfTransfers > 100 {\n\t\treturn nil, fmt.Errorf(\"%w, too many tokens\", ErrInvalidArguments)\n\t}\n\tmultiTransferCost := numOfTransfers * e.funcGasCost\n"),
    ("mutexmap-values-preallocated-and-get-with-defer", "container/mutexMap.go", "\tmm.mut.RLock()\n\tval, ok := mm.values[key]\n\tmm.mut.RUnlock()\n\n\treturn val, ok", "\tmm.mut.RLock()\n\tdefer mm.mut.RUnlock()\n\tval, ok := mm.values[key]\n\treturn val, ok"),
    ("bigint-caster-unmarshal-rejects-noncanonical-zero", "data/bigIntCaster.go", "\tret := new(big.Int).SetBytes(buf[1:])\n", "\tret := new(big.Int).SetBytes(buf[1:])\n\tif buf[0] == 1 && ret.Sign() == 0 {\n\t\treturn nil, fmt.Errorf(\"negative zero\")\n\t}\n"),
]

def run(cmd, cwd, env=ENV, timeout=1800):
    p = subprocess.run(cmd, cwd=cwd, env=env, stdout=subprocess.PIPE, stderr=subprocess.STDOUT, text=True, timeout=timeout)
    return p.returncode, p.stdout

def main():
    flt = sys.argv[1] if len(sys.argv) > 1 else ""
    for name, path, old, new in VARIANTS:
        if flt and flt not in name:
            continue
        d = tempfile.mkdtemp(prefix="bsweep.", dir="/var/tmp")
        try:
            subprocess.run("git -C /repo archive HEAD | tar -x -C %s" % d, shell=True, check=True)
            src = open(os.path.join(d, path)).read()
            if old not in src:
                print("%-60s PATTERN-NOT-FOUND" % name, flush=True); continue
            src = src.replace(old, new, 1)
            for imp in ("sort", "bytes", "fmt"):
                if (imp + ".") in new and ('"%s"' % imp) not in src:
                    src = src.replace("import (", 'import (\n\t"%s"' % imp, 1)
            open(os.path.join(d, path), "w").write(src)
            rc, out = run(["go", "build", "./..."], d)
            if rc != 0:
                print("%-60s DOES-NOT-COMPILE %s" % (name, out.strip().splitlines()[-1][:140]), flush=True); continue
            rc, out = run(["go", "test", "-vet=off", "-count=1", "./..."], d)
            if rc != 0:
                bad = [l for l in out.splitlines() if l.startswith("--- FAIL")][:2]
                print("%-60s repo-suite-fails %s" % (name, bad), flush=True); continue
            alarms = []
            for p in ALL:
                rc, out = run([ROOT + "/check", p], ROOT, env=dict(ENV, VERIF_REPO=d))
                if rc != 0:
                    sig = [l.strip() for l in out.splitlines() if l.strip().startswith("signature:")]
                    alarms.append("%s(rc=%d %s)" % (p, rc, sig[0][11:90] if sig else out.strip().splitlines()[-1][:90]))
            print("%-60s %s" % (name, "SILENT" if not alarms else "ALARMS " + " ".join(alarms)), flush=True)
        finally:
            shutil.rmtree(d, ignore_errors=True)

if __name__ == "__main__":
    main()
