package harness

import (
	"errors"
	"sync/atomic"
)

// protoObj is what elrond-go's GogoProtoMarshalizer requires of an object.
type protoObj interface {
	Marshal() ([]byte, error)
	Unmarshal([]byte) error
	Reset()
}

var errNotProto = errors.New("object does not implement the gogo proto interface")
var errInjected = errors.New("injected dependency failure")

// ProtoMarshalizer re-implements elrond-go's production marshalizer:
//
//	Marshal(obj)        = obj.Marshal()
//	Unmarshal(obj, buf) = obj.Reset(); obj.Unmarshal(buf)
//
// with optional fault injection (fail the k-th Marshal / Unmarshal call) and call counting for C17.
type ProtoMarshalizer struct {
	nMarshal, nUnmarshal       int64
	failMarshal, failUnmarshal int64 // 1-based index of the call that fails; 0 = never
	hitM, hitU                 int64
}

func (m *ProtoMarshalizer) Marshal(obj interface{}) ([]byte, error) {
	n := atomic.AddInt64(&m.nMarshal, 1)
	if f := atomic.LoadInt64(&m.failMarshal); f != 0 && n == f {
		atomic.AddInt64(&m.hitM, 1)
		return nil, errInjected
	}
	o, ok := obj.(protoObj)
	if !ok {
		return nil, errNotProto
	}
	return o.Marshal()
}

func (m *ProtoMarshalizer) Unmarshal(obj interface{}, buff []byte) error {
	n := atomic.AddInt64(&m.nUnmarshal, 1)
	if f := atomic.LoadInt64(&m.failUnmarshal); f != 0 && n == f {
		atomic.AddInt64(&m.hitU, 1)
		return errInjected
	}
	o, ok := obj.(protoObj)
	if !ok {
		return errNotProto
	}
	o.Reset()
	return o.Unmarshal(buff)
}

func (m *ProtoMarshalizer) IsInterfaceNil() bool { return m == nil }

func (m *ProtoMarshalizer) ResetCounters() {
	atomic.StoreInt64(&m.nMarshal, 0)
	atomic.StoreInt64(&m.nUnmarshal, 0)
	atomic.StoreInt64(&m.hitM, 0)
	atomic.StoreInt64(&m.hitU, 0)
}
