package harness

// C01 — transfers conserve tokens, on one shard and across shards.

import (
	"sort"
	"strings"
	"testing"
)

func shapeKey(g *Gen) string {
	s := append([]string{}, g.Shape...)
	sort.Strings(s)
	return strings.Join(s, ",")
}

var c01Weights = baseWeights.with(Weights{"transfer": 14, "nfttransfer": 12, "multi": 16, "deliver": 22, "issue": 8, "create": 9, "setrole": 7, "mutate": 8, "unstructured": 2, "skv": 0, "gas": 0, "epoch": 0, "changeowner": 0, "claim": 0, "setusername": 0})

func c01NT(rec *CallRecord, g *Gen) (string, bool) {
	if !isTransfer(rec) || !rec.Res.OK() {
		return "", false
	}
	kind := "transfer"
	if rec.Call.RetErr {
		kind = "refund"
	} else if rec.Call.MsgID != 0 {
		kind = "delivery"
	}
	return sprintf("%s|%s|%s|%s|type=%d|nargs=%d|%s", kind, rec.Call.Fn, rec.V.Side, shapeKey(g), rec.Call.CallType, len(rec.Call.Args), amountClass(rec)), true
}

func TestC01(t *testing.T) {
	runHistories(t, historyCfg{prop: "C01", weights: c01Weights, minSteps: 10, maxSteps: 60, templates: awayRefundTemplates, templateP: 12, nontrivial: c01NT})
}

func init() { replayers["C01"] = replayHistory([]string{"C01"}, nil) }
