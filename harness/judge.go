package harness

// Reference model, part 2: the verdict for one call (transfer functions here, the rest in judge2.go).

import (
	"bytes"
	"fmt"
	"math/big"

	vmcommon "github.com/ElrondNetwork/elrond-vm-common"
)

// Clause is one violated (or to-be-checked) statement, tagged with the properties it belongs to.
type Clause struct {
	Props []string
	Sig   string
	Msg   string
	// NoCut: the model already describes the state the clause complains about, so a history may go on after it (used for
	// a listed known finding, which is counted and excluded instead of ending every history that meets it)
	NoCut bool
}

func clause(props []string, sig, f string, a ...interface{}) Clause {
	return Clause{Props: props, Sig: sig, Msg: fmt.Sprintf(f, a...)}
}

type Verdict struct {
	Known       bool     // the model can account for a success of this call
	MustFail    []Clause // reasons (from the statements) why the call must not succeed
	MustSucceed *Clause  // set when the statements require acceptance
	Apply       func(res *Result) []Clause
	Side        string   // sender | dest | both | system | none
	Charge      *uint64  // expected gas consumed by a successful sender-side execution (C16)
	ChargeAlt   []uint64 // other acceptable values (same-shard NFT moves, see DESIGN C16)
	// ChargeBand: the statement prices "copied bytes of each CROSS-SHARD NFT payload" and is silent about a move
	// within one shard, where the code also charges for the (merged) token data it marshals.  There any charge
	// base + k*unit with 0 <= k <= max is accepted: the function's own cost plus a whole number of copied bytes that
	// does not exceed what the moved token data can occupy.
	ChargeBand *[3]uint64 // base, unit, max
	Labels     []string
	Named      [][]byte // token identifiers named by the input (C05)
	Suffixes   []string // exact balance keys (token + nonce) the input names; empty = only the token is known (C05)
	Credits    []string // addresses credited through a transfer (C09 generic monitor)
	PayExempt  bool
	msgItems   []Item
}

func u64p(v uint64) *uint64 { return &v }

func (v *Verdict) fail(props []string, sig, f string, a ...interface{}) {
	v.MustFail = append(v.MustFail, clause(props, sig, f, a...))
}

var (
	pC01, pC02, pC03, pC04 = []string{"C01"}, []string{"C02"}, []string{"C03"}, []string{"C04"}
	pC05, pC07, pC08, pC09 = []string{"C05"}, []string{"C07"}, []string{"C08"}, []string{"C09"}
	pC10                   = []string{"C10"}
	pOverdraft             = []string{"C02", "C01"}
)

func (m *Model) gas(shard int, name string) uint64 { return m.Shards[shard].Gas[name] }

func (m *Model) paused(shard int, token []byte) bool { return m.Shards[shard].PauseFlag[string(token)] }

// flagChecks adds the C04 must-fail reasons for changing `addr`'s entry at suffix (token named `token`).
func (m *Model) flagChecks(v *Verdict, c *Call, addr []byte, token []byte, suffix string, what string) {
	if c.RetErr || isESDTSC(addr) {
		return
	}
	if m.acc(c.Shard, addr).entry(suffix).Frozen {
		v.fail(pC04, what+"/frozen", "%s: account %s is frozen for key %x", what, shortAddr(addr), suffix)
	}
	if m.paused(c.Shard, token) {
		v.fail(pC04, what+"/paused", "%s: token %q is paused on shard %d", what, token, c.Shard)
	}
}

func payExempt(c *Call, minArgs int) bool {
	return c.CallType == int(vmcommon.AsynchronousCallBack) || c.CallType == int(vmcommon.ESDTTransferAndExecute) || isESDTSC(c.Caller) || len(c.Args) > minArgs
}

func (m *Model) payCheck(v *Verdict, c *Call, dest []byte, minArgs int, what string) {
	v.PayExempt = payExempt(c, minArgs)
	if mode := m.Shards[c.Shard].Payable[string(dest)]; mode != 0 && !v.PayExempt {
		v.fail(pC09, what+"/non-payable", "%s: destination %s is reported non-payable (oracle mode %d) and the call has no exemption", what, shortAddr(dest), mode)
	}
}

func args2bytes(a []HB) [][]byte {
	out := make([][]byte, len(a))
	for i := range a {
		out[i] = a[i]
	}
	return out
}

// firstTransfer returns the single output transfer a call emitted to `to`, if any.
func firstTransfer(res *Result, to []byte) *vmcommon.OutputTransfer {
	if res.Out == nil {
		return nil
	}
	oa := res.Out.OutputAccounts[string(to)]
	if oa == nil || len(oa.OutputTransfers) == 0 {
		return nil
	}
	return &oa.OutputTransfers[0]
}

// Judge gives the model's verdict for a call, computed on the pre-state.
func (m *Model) Judge(c *Call) *Verdict {
	v := &Verdict{Side: "none"}
	if c.CallValue != 0 {
		return v // every function refuses a call value; nothing in the statements to check beyond the generic monitors
	}
	switch c.Fn {
	case refBuiltInFunctionESDTTransfer:
		m.judgeESDTTransfer(c, v)
	case refBuiltInFunctionESDTNFTTransfer:
		m.judgeNFTTransfer(c, v)
	case refBuiltInFunctionMultiESDTNFTTransfer:
		m.judgeMulti(c, v)
	default:
		m.judgeOther(c, v)
	}
	return v
}

// ---------------------------------------------------------------- ESDTTransfer

func (m *Model) judgeESDTTransfer(c *Call, v *Verdict) {
	if len(c.Args) < 2 {
		return
	}
	token, value := []byte(c.Args[0]), bigOf(c.Args[1])
	suffix := string(token)
	v.Named = [][]byte{token}
	v.Suffixes = []string{suffix}
	sndLocal, dstLocal := m.local(c.Caller, c.Shard), m.local(c.Rcv, c.Shard)
	msg := m.msg(c.MsgID)
	switch {
	case sndLocal && dstLocal:
		v.Side = "both"
	case sndLocal:
		v.Side = "sender"
	case dstLocal:
		v.Side = "dest"
		if msg == nil && !isESDTSC(c.Caller) {
			return // a destination-side execution that no protocol message stands for: not reachable (N3)
		}
	default:
		return
	}
	if msg != nil && (msg.Done || msg.Fn != c.Fn || msg.Kind != "transfer") {
		return
	}
	v.Known = true
	if m.shardOf(c.Rcv) == refMetachainShard {
		v.fail(pC09, "ESDTTransfer/metachain-destination", "transfer addressed to the metachain")
	}
	if sndLocal {
		if value.Cmp(m.acc(c.Shard, c.Caller).bal(suffix)) > 0 {
			v.fail(pOverdraft, "ESDTTransfer/overdraft", "transfer of %v exceeds the sender's holding %v", value, m.acc(c.Shard, c.Caller).bal(suffix))
		}
		if e := m.acc(c.Shard, c.Caller).entry(suffix); e.Meta != nil && value.Sign() > 0 {
			// the identifier argument spells the storage key of an NFT / SFT holding (token + nonce bytes): a plain balance
			// transfer would move its quantity without the metadata and leave a metadata-less entry under an NFT key
			v.fail([]string{"C08", "C15"}, "ESDTTransfer/moves-nft-holding-as-plain-balance", "the identifier %x is the key of the sender's NFT/SFT holding (nonce %d): its quantity must not travel as a plain balance, without the metadata", token, e.Meta.Nonce)
		}
		m.flagChecks(v, c, c.Caller, token, suffix, "ESDTTransfer/sender")
		v.Charge = u64p(m.gas(c.Shard, "ESDTTransfer"))
	}
	if dstLocal {
		m.flagChecks(v, c, c.Rcv, token, suffix, "ESDTTransfer/dest")
		m.payCheck(v, c, c.Rcv, refMinArgsESDTTransfer, "ESDTTransfer/dest")
		v.Credits = []string{string(c.Rcv)}
	}
	if msg != nil && len(v.MustFail) == 0 {
		// the only other legitimate refusal: the destination holds a non-fungible entry under this very key
		if e := m.acc(c.Shard, c.Rcv).entry(suffix); e.Meta == nil {
			cl := clause([]string{"C01", "C10"}, "ESDTTransfer/delivery-refused", "a protocol-generated transfer message was refused although the destination is neither frozen, paused nor non-payable")
			v.MustSucceed = &cl
		}
	}
	v.Apply = func(res *Result) []Clause {
		var out []Clause
		if sndLocal {
			m.acc(c.Shard, c.Caller).add(suffix, new(big.Int).Neg(value), nil)
		}
		if dstLocal {
			m.acc(c.Shard, c.Rcv).add(suffix, value, nil)
		}
		switch {
		case msg != nil:
			msg.Done = true
		case !sndLocal: // issuance by the system contract
			m.addSupply(suffix, value)
		}
		if sndLocal && !dstLocal && m.shardOf(c.Rcv) != refMetachainShard {
			nm := &Msg{Kind: "transfer", Fn: c.Fn, Caller: cp(c.Caller), Rcv: cp(c.Rcv), Sender: cp(c.Caller), CallType: c.CallType, Gas: c.Gas, GasLocked: c.GasLocked,
				Items: []Item{{Token: cp(token), Suffix: suffix, Qty: new(big.Int).Set(value)}}}
			if refIsSC(c.Caller) {
				// a contract's cross-shard transfer travels as the emitted output transfer
				ot := firstTransfer(res, c.Rcv)
				if ot == nil {
					out = append(out, clause([]string{"C01", "C10"}, "ESDTTransfer/no-message", "a contract's cross-shard transfer emitted no output transfer: the debited tokens are lost"))
					nm.Args = args2bytes(c.Args)
				} else {
					fn, args, err := TxDecode(string(ot.Data))
					if err != nil || fn != c.Fn || !argsEqual(args, args2bytes(c.Args)) {
						out = append(out, clause(pC10, "ESDTTransfer/message-content", "emitted message %q does not encode the call's function and arguments", ot.Data))
					}
					nm.Args, nm.Gas, nm.GasLocked, nm.CallType = args, ot.GasLimit, ot.GasLocked, int(ot.CallType)
				}
			} else {
				nm.Args = args2bytes(c.Args) // the user's own transaction continues on the destination shard
			}
			m.newMsg(nm)
		}
		return out
	}
}

// ---------------------------------------------------------------- ESDTNFTTransfer

// payloadLen is the length of the documented encoding of the moved token data.
func payloadLen(typ uint32, props []byte, qty *big.Int, meta *RefMeta, reserved []byte) uint64 {
	return uint64(len(RefEncodeToken(&RefToken{Type: typ, Value: qty, Properties: props, Meta: meta, Reserved: reserved})))
}

func (m *Model) judgeNFTTransfer(c *Call, v *Verdict) {
	if len(c.Args) < 4 {
		return
	}
	token := []byte(c.Args[0])
	v.Named = [][]byte{token}
	if bytes.Equal(c.Caller, c.Rcv) {
		if !m.local(c.Caller, c.Shard) {
			return
		}
		m.judgeNFTSender(c, v)
		return
	}
	// destination side: only a protocol message can stand behind it
	msg := m.msg(c.MsgID)
	if msg == nil || msg.Done || msg.Fn != c.Fn || msg.Kind != "transfer" || len(msg.Items) == 0 || m.local(c.Caller, c.Shard) || !m.local(c.Rcv, c.Shard) {
		return
	}
	v.Known, v.Side = true, "dest"
	it := msg.Items[0]
	v.Suffixes = []string{it.Suffix}
	m.flagChecks(v, c, c.Rcv, it.Token, it.Suffix, "ESDTNFTTransfer/dest")
	m.payCheck(v, c, c.Rcv, refMinArgsNFTTransfer, "ESDTNFTTransfer/dest")
	v.Credits = []string{string(c.Rcv)}
	hashClash := m.hashClash(c.Shard, c.Rcv, it)
	if hashClash {
		v.fail(pC08, "ESDTNFTTransfer/dest/different-hash", "destination holds a different hash under key %x", it.Suffix)
	}
	if len(v.MustFail) == 0 {
		cl := clause([]string{"C01", "C10"}, "ESDTNFTTransfer/delivery-refused", "a protocol-generated NFT transfer message was refused although the destination is neither frozen, paused nor non-payable")
		v.MustSucceed = &cl
	}
	v.Apply = func(res *Result) []Clause {
		m.acc(c.Shard, c.Rcv).add(it.Suffix, it.Qty, it.Meta)
		msg.Done = true
		return nil
	}
}

func (m *Model) hashClash(shard int, addr []byte, it Item) bool {
	e := m.acc(shard, addr).entry(it.Suffix)
	return e.Meta != nil && it.Meta != nil && !bytes.Equal(e.Meta.Hash, it.Meta.Hash)
}

func (m *Model) judgeNFTSender(c *Call, v *Verdict) {
	token, nonce, qty, dest := []byte(c.Args[0]), low64(c.Args[1]), bigOf(c.Args[2]), []byte(c.Args[3])
	suffix := suffixOf(token, nonce)
	v.Known, v.Side = true, "sender"
	v.Suffixes = []string{suffix}
	snd := m.acc(c.Shard, c.Caller)
	e := snd.entry(suffix)
	if len(dest) != len(c.Caller) {
		v.fail(pC09, "ESDTNFTTransfer/destination-length", "destination of %d bytes", len(dest))
	}
	if bytes.Equal(dest, c.Caller) {
		v.fail(pC09, "ESDTNFTTransfer/to-self", "transfer to the sender itself")
	}
	if m.shardOf(dest) == refMetachainShard {
		v.fail(pC09, "ESDTNFTTransfer/metachain-destination", "transfer addressed to the metachain")
	}
	if qty.Cmp(e.Value) > 0 {
		v.fail(pOverdraft, "ESDTNFTTransfer/overdraft", "transfer of %v exceeds the sender's holding %v at key %x", qty, e.Value, suffix)
	}
	m.flagChecks(v, c, c.Caller, token, suffix, "ESDTNFTTransfer/sender")
	dstLocal := len(dest) == len(c.Caller) && m.local(dest, c.Shard)
	item := Item{Token: cp(token), Nonce: nonce, Suffix: suffix, Qty: new(big.Int).Set(qty), Meta: e.Meta.Clone()}
	base := m.gas(c.Shard, "ESDTNFTTransfer")
	dcopy := m.gas(c.Shard, "DataCopyPerByte")
	typ, props, reserved := m.storedExtras(c.Shard, c.Caller, suffix, e.Meta != nil)
	pl := payloadLen(typ, props, qty, e.Meta, reserved)
	if dstLocal {
		v.Side = "both"
		m.flagChecks(v, c, dest, token, suffix, "ESDTNFTTransfer/dest")
		m.payCheck(v, c, dest, refMinArgsNFTTransfer, "ESDTNFTTransfer/dest")
		v.Credits = []string{string(dest)}
		if m.hashClash(c.Shard, dest, item) {
			v.fail(pC08, "ESDTNFTTransfer/dest/different-hash", "destination holds a different hash under key %x", suffix)
		}
		// the statement prices only cross-shard payloads; the code also prices the same-shard one (with the merged value)
		sum := new(big.Int).Add(qty, m.acc(c.Shard, dest).bal(suffix))
		v.Charge = u64p(base)
		v.ChargeAlt = []uint64{base + pl*dcopy, base + payloadLen(typ, props, sum, e.Meta, reserved)*dcopy}
		v.ChargeBand = &[3]uint64{base, dcopy, payloadLen(typ, props, sum, e.Meta, reserved) + 16}
	} else {
		v.Charge = u64p(base + pl*dcopy)
	}
	v.msgItems = []Item{item}
	v.Apply = func(res *Result) []Clause {
		var out []Clause
		snd.add(suffix, new(big.Int).Neg(qty), nil)
		if dstLocal {
			m.acc(c.Shard, dest).add(suffix, qty, item.Meta)
			return out
		}
		nm := &Msg{Kind: "transfer", Fn: c.Fn, Caller: cp(c.Caller), Rcv: cp(dest), Sender: cp(c.Caller), Items: []Item{item}}
		ot := firstTransfer(res, dest)
		if ot == nil {
			out = append(out, clause([]string{"C01", "C10"}, "ESDTNFTTransfer/no-message", "cross-shard NFT transfer emitted no output transfer: the debited tokens are lost"))
			m.newMsg(nm).Done = true
			m.addSupply(suffix, new(big.Int).Neg(qty))
			return out
		}
		fn, args, err := TxDecode(string(ot.Data))
		nm.Args, nm.Gas, nm.GasLocked, nm.CallType = args, ot.GasLimit, ot.GasLocked, int(ot.CallType)
		ok := err == nil && fn == c.Fn && len(args) == len(c.Args) && argsEqual(args[:3], args2bytes(c.Args[:3])) && argsEqual(args[4:], args2bytes(c.Args[4:]))
		if ok {
			pay, perr := RefDecodeToken(args[3])
			ok = perr == nil && pay.Value != nil && pay.Value.Cmp(qty) == 0 && pay.Meta.Equal(item.Meta)
		}
		if !ok {
			out = append(out, clause([]string{"C10", "C01", "C08"}, "ESDTNFTTransfer/message-content", "emitted message %q does not carry token %q nonce %d quantity %v with the sender's metadata and the attached call", ot.Data, token, nonce, qty))
		}
		m.newMsg(nm)
		return out
	}
}

// ---------------------------------------------------------------- MultiESDTNFTTransfer

type multiItem struct {
	token []byte
	nonce uint64
	qty   *big.Int
	raw   []byte
}

func parseMultiItems(args [][]byte, start int, n uint64) []multiItem {
	out := make([]multiItem, 0, n)
	for i := uint64(0); i < n; i++ {
		k := start + int(i)*3
		out = append(out, multiItem{token: args[k], nonce: low64(args[k+1]), qty: bigOf(args[k+2]), raw: args[k+2]})
	}
	return out
}

func (m *Model) judgeMulti(c *Call, v *Verdict) {
	args := args2bytes(c.Args)
	if bytes.Equal(c.Caller, c.Rcv) {
		if len(args) < 2 || !m.local(c.Caller, c.Shard) {
			return
		}
		n := low64(args[1])
		if n == 0 || n > uint64(len(args)) || uint64(len(args)) < 3*n+2 {
			return
		}
		m.judgeMultiSender(c, v, args, n)
		return
	}
	msg := m.msg(c.MsgID)
	if msg == nil || msg.Done || msg.Fn != c.Fn || msg.Kind != "transfer" || len(msg.Items) == 0 || m.local(c.Caller, c.Shard) || !m.local(c.Rcv, c.Shard) {
		return
	}
	v.Known, v.Side = true, "dest"
	n := len(msg.Items)
	for _, it := range msg.Items {
		v.Named = append(v.Named, it.Token)
		v.Suffixes = append(v.Suffixes, it.Suffix)
		m.flagChecks(v, c, c.Rcv, it.Token, it.Suffix, "MultiESDTNFTTransfer/dest")
		if m.hashClash(c.Shard, c.Rcv, it) {
			v.fail(pC08, "MultiESDTNFTTransfer/dest/different-hash", "destination holds a different hash under key %x", it.Suffix)
		}
	}
	m.payCheck(v, c, c.Rcv, 3*n+1, "MultiESDTNFTTransfer/dest")
	v.Credits = []string{string(c.Rcv)}
	if len(v.MustFail) == 0 {
		cl := clause([]string{"C01", "C10"}, sprintfSig("MultiESDTNFTTransfer/delivery-refused/ntokens=%d", n), "a protocol-generated multi-transfer message (%d tokens, %d arguments) was refused although the destination is neither frozen, paused nor non-payable", n, len(c.Args))
		v.MustSucceed = &cl
	}
	v.Apply = func(res *Result) []Clause {
		for _, it := range msg.Items {
			m.acc(c.Shard, c.Rcv).add(it.Suffix, it.Qty, it.Meta)
		}
		msg.Done = true
		return nil
	}
}

func sprintfSig(f string, a ...interface{}) string { return fmt.Sprintf(f, a...) }

func (m *Model) judgeMultiSender(c *Call, v *Verdict, args [][]byte, n uint64) {
	dest := args[0]
	items := parseMultiItems(args, 2, n)
	v.Known, v.Side = true, "sender"
	snd := m.acc(c.Shard, c.Caller)
	if len(dest) != len(c.Caller) {
		v.fail(pC09, "MultiESDTNFTTransfer/destination-length", "destination of %d bytes", len(dest))
	}
	if bytes.Equal(dest, c.Caller) {
		v.fail(pC09, "MultiESDTNFTTransfer/to-self", "transfer to the sender itself")
	}
	if m.shardOf(dest) == refMetachainShard {
		v.fail(pC09, "MultiESDTNFTTransfer/metachain-destination", "transfer addressed to the metachain")
	}
	dstLocal := len(dest) == len(c.Caller) && m.local(dest, c.Shard)
	if dstLocal {
		v.Side = "both"
		m.payCheck(v, c, dest, int(3*n+2), "MultiESDTNFTTransfer/dest")
		v.Credits = []string{string(dest)}
	}
	// walk the list on scratch copies of the two holdings to get per-step balances (repeated keys aggregate)
	sndBal := map[string]*big.Int{}
	dstBal := map[string]*big.Int{}
	base := n * m.gas(c.Shard, "ESDTNFTMultiTransfer")
	dcopy := m.gas(c.Shard, "DataCopyPerByte")
	var plQty, plSum uint64
	var its []Item
	for _, mi := range items {
		sfx := suffixOf(mi.token, mi.nonce)
		v.Named = append(v.Named, mi.token)
		v.Suffixes = append(v.Suffixes, sfx)
		e := snd.entry(sfx)
		if _, ok := sndBal[sfx]; !ok {
			sndBal[sfx] = new(big.Int).Set(e.Value)
			if dstLocal {
				dstBal[sfx] = new(big.Int).Set(m.acc(c.Shard, dest).bal(sfx))
			}
		}
		if mi.qty.Cmp(sndBal[sfx]) > 0 {
			v.fail(pOverdraft, "MultiESDTNFTTransfer/overdraft", "moving %v of key %x exceeds what the sender holds at that point (%v)", mi.qty, sfx, sndBal[sfx])
		}
		sndBal[sfx].Sub(sndBal[sfx], mi.qty)
		m.flagChecks(v, c, c.Caller, mi.token, sfx, "MultiESDTNFTTransfer/sender")
		it := Item{Token: cp(mi.token), Nonce: mi.nonce, Suffix: sfx, Qty: new(big.Int).Set(mi.qty), Meta: e.Meta.Clone()}
		its = append(its, it)
		if dstLocal {
			m.flagChecks(v, c, dest, mi.token, sfx, "MultiESDTNFTTransfer/dest")
			if m.hashClash(c.Shard, dest, it) {
				v.fail(pC08, "MultiESDTNFTTransfer/dest/different-hash", "destination holds a different hash under key %x", sfx)
			}
		}
		if e.Meta != nil {
			typ, props, reserved := m.storedExtras(c.Shard, c.Caller, sfx, true)
			plQty += payloadLen(typ, props, mi.qty, e.Meta, reserved)
			if dstLocal {
				sum := new(big.Int).Add(mi.qty, dstBal[sfx])
				plSum += payloadLen(typ, props, sum, e.Meta, reserved)
				dstBal[sfx] = sum
			}
		} else if dstLocal {
			dstBal[sfx].Add(dstBal[sfx], mi.qty)
		}
	}
	if dstLocal {
		v.Charge = u64p(base)
		v.ChargeAlt = []uint64{base + plQty*dcopy, base + plSum*dcopy}
		v.ChargeBand = &[3]uint64{base, dcopy, plSum + 16*n}
	} else {
		v.Charge = u64p(base + plQty*dcopy)
	}
	v.msgItems = its
	v.Labels = append(v.Labels, sprintfSig("multi/ntokens=%d", n))
	v.Apply = func(res *Result) []Clause {
		var out []Clause
		for _, it := range its {
			snd.add(it.Suffix, new(big.Int).Neg(it.Qty), nil)
			if dstLocal {
				m.acc(c.Shard, dest).add(it.Suffix, it.Qty, it.Meta)
			}
		}
		if dstLocal {
			return out
		}
		nm := &Msg{Kind: "transfer", Fn: c.Fn, Caller: cp(c.Caller), Rcv: cp(dest), Sender: cp(c.Caller), Items: its}
		ot := firstTransfer(res, dest)
		if ot == nil {
			out = append(out, clause([]string{"C01", "C10"}, "MultiESDTNFTTransfer/no-message", "cross-shard multi transfer emitted no output transfer: the debited tokens are lost"))
			m.newMsg(nm).Done = true
			for _, it := range its {
				m.addSupply(it.Suffix, new(big.Int).Neg(it.Qty))
			}
			return out
		}
		fn, margs, err := TxDecode(string(ot.Data))
		nm.Args, nm.Gas, nm.GasLocked, nm.CallType = margs, ot.GasLimit, ot.GasLocked, int(ot.CallType)
		ok := err == nil && fn == c.Fn && len(margs) == len(args)-1 && len(margs) >= 1 && low64(margs[0]) == n && len(margs[0]) <= 8
		for i := 0; ok && i < len(its); i++ {
			k := 1 + 3*i
			it := its[i]
			ok = bytes.Equal(margs[k], it.Token)
			if !ok {
				break
			}
			if it.Meta != nil {
				pay, perr := RefDecodeToken(margs[k+2])
				ok = low64(margs[k+1]) == it.Nonce && perr == nil && pay.Value != nil && pay.Value.Cmp(it.Qty) == 0 && pay.Meta.Equal(it.Meta)
			} else {
				ok = low64(margs[k+1]) == it.Nonce && bigOf(margs[k+2]).Cmp(it.Qty) == 0
			}
		}
		if ok {
			ok = argsEqual(margs[1+3*len(its):], args[2+3*len(its):])
		}
		if !ok {
			out = append(out, clause([]string{"C10", "C01", "C08"}, "MultiESDTNFTTransfer/message-content", "emitted message %q does not carry the %d listed (token, nonce, quantity) items with metadata and the attached call", ot.Data, n))
		}
		m.newMsg(nm)
		return out
	}
}
