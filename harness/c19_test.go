package harness

// C19 — the container, the atomics and gas reconfiguration are safe under concurrency.
// Randomly generated operation mixes run on 2-16 goroutines; recorded call/return histories are judged by a
// linearizability checker (porcupine) against sequential specifications; a live world executes priced functions
// concurrently with schedule flips, epoch notifications and registry reads, and every charge must come wholly from
// one schedule.  The binary is built with -race: any race report fails the run (the driver turns it into a violation).

import (
	"encoding/json"
	"fmt"
	"math/big"
	"runtime"
	"sort"
	"strings"
	"sync"
	"sync/atomic"
	"testing"
	"time"

	vmcommon "github.com/ElrondNetwork/elrond-vm-common"
	vmatomic "github.com/ElrondNetwork/elrond-vm-common/atomic"
	"github.com/ElrondNetwork/elrond-vm-common/builtInFunctions"
	"github.com/ElrondNetwork/elrond-vm-common/container"
	"github.com/anishathalye/porcupine"
	"pgregory.net/rapid"
)

type cOp struct {
	Kind string `json:"k"`
	Key  string `json:"key,omitempty"`
	Val  int64  `json:"v,omitempty"`
}

type cMix struct {
	Target  string  `json:"target"`
	Threads [][]cOp `json:"threads"`
}

type cOut struct {
	Val  int64
	Ok   bool
	Keys string
}

// ---- sequential specifications ----

func mapState(m map[string]int64) string {
	ks := make([]string, 0, len(m))
	for k := range m {
		ks = append(ks, k)
	}
	sort.Strings(ks)
	var b strings.Builder
	for _, k := range ks {
		fmt.Fprintf(&b, "%s=%d;", k, m[k])
	}
	return b.String()
}

func parseMapState(s string) map[string]int64 {
	m := map[string]int64{}
	for _, kv := range strings.Split(s, ";") {
		if kv == "" {
			continue
		}
		var k string
		var v int64
		i := strings.IndexByte(kv, '=')
		k = kv[:i]
		fmt.Sscanf(kv[i+1:], "%d", &v)
		m[k] = v
	}
	return m
}

func keysOf(m map[string]int64) string {
	ks := make([]string, 0, len(m))
	for k := range m {
		ks = append(ks, k)
	}
	sort.Strings(ks)
	return strings.Join(ks, ",")
}

var mapModel = porcupine.Model{
	Init: func() interface{} { return "" },
	Step: func(state, input, output interface{}) (bool, interface{}) {
		m := parseMapState(state.(string))
		in, out := input.(cOp), output.(cOut)
		switch in.Kind {
		case "get":
			v, ok := m[in.Key]
			return ok == out.Ok && (!ok || v == out.Val), state
		case "insert":
			_, present := m[in.Key]
			if out.Ok != !present {
				return false, state
			}
			if !present {
				m[in.Key] = in.Val
			}
			return true, mapState(m)
		case "set":
			m[in.Key] = in.Val
			return true, mapState(m)
		case "remove":
			delete(m, in.Key)
			return true, mapState(m)
		case "len":
			return int64(len(m)) == out.Val, state
		case "keys":
			return keysOf(m) == out.Keys, state
		}
		return false, state
	},
	Equal: func(a, b interface{}) bool { return a.(string) == b.(string) },
}

var counterModel = porcupine.Model{
	Init: func() interface{} { return int64(0) },
	Step: func(state, input, output interface{}) (bool, interface{}) {
		s := state.(int64)
		in, out := input.(cOp), output.(cOut)
		switch in.Kind {
		case "add":
			return out.Val == s+in.Val, s + in.Val
		case "sub":
			return out.Val == s-in.Val, s - in.Val
		case "inc":
			return out.Val == s+1, s + 1
		case "dec":
			return out.Val == s-1, s - 1
		case "get":
			return out.Val == s, s
		case "getu":
			w := s
			if w < 0 {
				w = 0
			}
			return out.Val == w, s
		case "reset":
			return out.Val == s, int64(0)
		case "set":
			return true, in.Val
		}
		return false, s
	},
	Equal: func(a, b interface{}) bool { return a.(int64) == b.(int64) },
}

// flag: state 0/1; registers: state = last value written
var registerModel = porcupine.Model{
	Init: func() interface{} { return int64(0) },
	Step: func(state, input, output interface{}) (bool, interface{}) {
		s := state.(int64)
		in, out := input.(cOp), output.(cOut)
		switch in.Kind {
		case "set": // register write
			return true, in.Val
		case "get":
			return out.Val == s, s
		case "fset": // Flag.Set returns the previous value
			return out.Ok == (s == 1), int64(1)
		case "funset":
			return true, int64(0)
		case "ftoggle":
			return true, in.Val
		case "fisset":
			return out.Ok == (s == 1), s
		}
		return false, s
	},
	Equal: func(a, b interface{}) bool { return a.(int64) == b.(int64) },
}

type stubFn struct{ id int64 }

func (s *stubFn) ProcessBuiltinFunction(_, _ vmcommon.UserAccountHandler, _ *vmcommon.ContractCallInput) (*vmcommon.VMOutput, error) {
	return nil, nil
}
func (s *stubFn) SetNewGasConfig(*vmcommon.GasCost) {}
func (s *stubFn) IsActive() bool                    { return true }
func (s *stubFn) IsInterfaceNil() bool              { return s == nil }

// runMix executes a mix on real objects and returns the recorded history.
func runMix(mx *cMix) []porcupine.Operation {
	var clk int64
	mm := container.NewMutexMap()
	fc := builtInFunctions.NewBuiltInFunctionContainer()
	var flag vmatomic.Flag
	var counter vmatomic.Counter
	var u32 vmatomic.Uint32
	var u64 vmatomic.Uint64
	var i64 vmatomic.Int64
	var str vmatomic.String
	if mx.Target == "string" {
		str.Set("0")
	}
	do := func(op cOp) cOut {
		switch mx.Target {
		case "mutexmap":
			switch op.Kind {
			case "get":
				v, ok := mm.Get(op.Key)
				if ok {
					if v == nil {
						return cOut{Val: 0, Ok: true}
					}
					return cOut{Val: v.(int64), Ok: true}
				}
				return cOut{}
			case "insert":
				if op.Val == 0 {
					return cOut{Ok: mm.Insert(op.Key, nil)}
				}
				return cOut{Ok: mm.Insert(op.Key, op.Val)}
			case "set":
				if op.Val == 0 {
					mm.Set(op.Key, nil)
					break
				}
				mm.Set(op.Key, op.Val)
			case "remove":
				mm.Remove(op.Key)
			case "len":
				return cOut{Val: int64(mm.Len())}
			case "keys":
				ks := []string{}
				for _, k := range mm.Keys() {
					ks = append(ks, k.(string))
				}
				sort.Strings(ks)
				return cOut{Keys: strings.Join(ks, ",")}
			}
		case "container":
			switch op.Kind {
			case "get":
				f, err := fc.Get(op.Key)
				if err == nil {
					return cOut{Val: f.(*stubFn).id, Ok: true}
				}
				return cOut{}
			case "insert":
				return cOut{Ok: fc.Add(op.Key, &stubFn{id: op.Val}) == nil}
			case "set":
				_ = fc.Replace(op.Key, &stubFn{id: op.Val})
			case "remove":
				fc.Remove(op.Key)
			case "len":
				return cOut{Val: int64(fc.Len())}
			case "keys":
				ks := []string{}
				for k := range fc.Keys() {
					ks = append(ks, k)
				}
				sort.Strings(ks)
				return cOut{Keys: strings.Join(ks, ",")}
			}
		case "counter":
			switch op.Kind {
			case "add":
				return cOut{Val: counter.Add(op.Val)}
			case "sub":
				return cOut{Val: counter.Subtract(op.Val)}
			case "inc":
				return cOut{Val: counter.Increment()}
			case "dec":
				return cOut{Val: counter.Decrement()}
			case "get":
				return cOut{Val: counter.Get()}
			case "getu":
				return cOut{Val: int64(counter.GetUint64())}
			case "reset":
				return cOut{Val: counter.Reset()}
			case "set":
				counter.Set(op.Val)
			}
		case "flag":
			switch op.Kind {
			case "fset":
				return cOut{Ok: flag.Set()}
			case "funset":
				flag.Unset()
			case "ftoggle":
				flag.Toggle(op.Val == 1)
			case "fisset":
				return cOut{Ok: flag.IsSet()}
			}
		case "uint32":
			if op.Kind == "set" {
				u32.Set(uint32(op.Val))
			} else {
				return cOut{Val: int64(u32.Get())}
			}
		case "uint64":
			if op.Kind == "set" {
				u64.Set(uint64(op.Val))
			} else {
				return cOut{Val: int64(u64.Get())}
			}
		case "int64":
			if op.Kind == "set" {
				i64.Set(op.Val)
			} else {
				return cOut{Val: i64.Get()}
			}
		case "string":
			if op.Kind == "set" {
				str.Set(fmt.Sprint(op.Val))
			} else {
				var v int64
				fmt.Sscanf(str.Get(), "%d", &v)
				return cOut{Val: v}
			}
		}
		return cOut{}
	}
	start := make(chan struct{})
	var wg sync.WaitGroup
	hist := make([][]porcupine.Operation, len(mx.Threads))
	for ti, ops := range mx.Threads {
		wg.Add(1)
		go func(ti int, ops []cOp) {
			defer wg.Done()
			<-start
			for _, op := range ops {
				call := atomic.AddInt64(&clk, 1)
				out := do(op)
				ret := atomic.AddInt64(&clk, 1)
				hist[ti] = append(hist[ti], porcupine.Operation{ClientId: ti, Input: op, Call: call, Output: out, Return: ret})
			}
		}(ti, ops)
	}
	close(start)
	wg.Wait()
	var all []porcupine.Operation
	for _, h := range hist {
		all = append(all, h...)
	}
	return all
}

func modelFor(target string) porcupine.Model {
	switch target {
	case "mutexmap", "container":
		return mapModel
	case "counter":
		return counterModel
	}
	return registerModel
}

func overlapped(ops []porcupine.Operation) bool {
	for i := range ops {
		for j := range ops {
			if ops[i].ClientId != ops[j].ClientId && ops[i].Call < ops[j].Return && ops[j].Call < ops[i].Return {
				return true
			}
		}
	}
	return false
}

// c19Mix runs the mix `rounds` times; any non-linearizable history is a violation.
func c19Mix(mx *cMix, rounds int) (sig, msg string, overlaps, unknown int) {
	for r := 0; r < rounds; r++ {
		hangEnter([]string{"C19"}, mx.Target+"/operations-never-return", "mix", mx, "a generated mix of concurrent operations on the "+mx.Target)
		ops := runMix(mx)
		hangLeave()
		if overlapped(ops) {
			overlaps++
		}
		switch porcupine.CheckOperationsTimeout(modelFor(mx.Target), ops, 300*time.Millisecond) {
		case porcupine.Illegal:
			var lines []string
			sort.Slice(ops, func(i, j int) bool { return ops[i].Call < ops[j].Call })
			for _, o := range ops {
				lines = append(lines, fmt.Sprintf("g%d [%d,%d] %+v -> %+v", o.ClientId, o.Call, o.Return, o.Input, o.Output))
			}
			return mx.Target + "/not-linearizable", "recorded history has no linearization against the sequential specification:\n" + strings.Join(lines, "\n"), overlaps, unknown
		case porcupine.Unknown:
			unknown++
		}
	}
	return "", "", overlaps, unknown
}

// c19Monotone is a cheap, sound consequence of linearizability for long runs (which the general checker cannot afford):
// one writer inserts keys 0..n-1 in order and then removes them in order.  Before each operation it publishes the key
// it is about to touch and waits (bounded) until an observer is spinning on exactly that key, so that every single
// insert / removal is a trial for the window right after the writer's critical section:
//   - an observer that SEES key i during the insert phase knows keys 0..i are all in the map (nothing is removed yet),
//     so the Len()/Keys() it reads next must be at least i+1 - and never more than the inserts announced;
//   - an observer that sees key i GONE during the removal phase knows keys 0..i are all removed (nothing is inserted
//     any more), so the length it reads next is at most n-(i+1).
func c19Monotone(target string, n int, observers int) (string, string, int) {
	hangEnter([]string{"C19"}, target+"/operations-never-return", "monotone", map[string]interface{}{"target": target, "keys": n, "observers": observers}, "a writer/observer run on the "+target)
	defer hangLeave()
	mm := container.NewMutexMap()
	fc := builtInFunctions.NewBuiltInFunctionContainer()
	key := func(i int) string { return fmt.Sprintf("k%03d", i) }
	insert := func(i int) {
		if target == "container" {
			_ = fc.Add(key(i), &stubFn{id: int64(i)})
		} else {
			mm.Insert(key(i), int64(i))
		}
	}
	remove := func(i int) {
		if target == "container" {
			fc.Remove(key(i))
		} else {
			mm.Remove(key(i))
		}
	}
	get := func(i int) bool {
		if target == "container" {
			_, err := fc.Get(key(i))
			return err == nil
		}
		_, ok := mm.Get(key(i))
		return ok
	}
	length := func(useKeys bool) int {
		if target == "container" {
			if useKeys {
				return len(fc.Keys())
			}
			return fc.Len()
		}
		if useKeys {
			return len(mm.Keys())
		}
		return mm.Len()
	}
	// cur encodes the operation in progress: 0 = none yet, i+1 = inserting key i, n+i+1 = removing key i, -1 = finished
	var cur, armed, insStarted int64
	var bad atomic.Value
	var checks int64
	var wg sync.WaitGroup
	for o := 0; o < observers; o++ {
		wg.Add(1)
		go func(o int) {
			defer wg.Done()
			last := int64(0)
			for {
				c := atomic.LoadInt64(&cur)
				if c < 0 {
					return
				}
				if c == 0 || c == last {
					runtime.Gosched()
					continue
				}
				last = c
				inserting := c <= int64(n)
				i := int(c - 1)
				if !inserting {
					i = int(c) - n - 1
				}
				atomic.AddInt64(&armed, 1)
				hit := false
				for atomic.LoadInt64(&cur) == c {
					if get(i) == inserting {
						hit = true
						break
					}
				}
				if !hit {
					continue // the writer moved on before this observer saw the change: no trial
				}
				l := length((i+o)%2 == 0)
				insAnn := atomic.LoadInt64(&insStarted)
				// read AFTER the length call returned: still in the insert phase means no removal had started while it ran
				after := atomic.LoadInt64(&cur)
				stillInserting := after > 0 && after <= int64(n)
				atomic.AddInt64(&checks, 1)
				switch {
				case inserting && stillInserting && l < i+1:
					bad.Store(fmt.Sprintf("%s: an observer saw key %d (keys are inserted in order 0..%d, none removed yet) and then read a length of %d", target, i, n-1, l))
					return
				case int64(l) > insAnn:
					bad.Store(fmt.Sprintf("%s: length %d although only %d inserts had been started", target, l, insAnn))
					return
				case !inserting && l > n-(i+1):
					bad.Store(fmt.Sprintf("%s: an observer saw key %d gone (keys are removed in order 0..%d, none inserted any more) and then read a length of %d, at most %d keys can be left", target, i, n-1, l, n-(i+1)))
					return
				case l < 0:
					bad.Store(fmt.Sprintf("%s: negative length %d", target, l))
					return
				}
			}
		}(o)
	}
	waitArmed := func() {
		for spin := 0; spin < 2000 && atomic.LoadInt64(&armed) < 1; spin++ {
			runtime.Gosched()
		}
	}
	for i := 0; i < n && bad.Load() == nil; i++ {
		atomic.AddInt64(&insStarted, 1)
		atomic.StoreInt64(&armed, 0)
		atomic.StoreInt64(&cur, int64(i+1))
		waitArmed()
		insert(i)
		if l := length(false); l < i+1 {
			bad.Store(fmt.Sprintf("%s: after Insert of key %d returned the length is %d", target, i, l))
		}
	}
	for i := 0; i < n && bad.Load() == nil; i++ {
		atomic.StoreInt64(&armed, 0)
		atomic.StoreInt64(&cur, int64(n+i+1))
		waitArmed()
		remove(i)
		// upper bound after a removal returned: checked by the writer itself
		if l := length(false); l > n-(i+1) {
			bad.Store(fmt.Sprintf("%s: after Remove of key %d returned (keys removed in order) the length is %d, at most %d keys can be left", target, i, l, n-(i+1)))
		}
	}
	atomic.StoreInt64(&cur, -1)
	wg.Wait()
	if v := bad.Load(); v != nil {
		return target + "/length-inconsistent-with-observed-keys", v.(string), int(checks)
	}
	return "", "", int(checks)
}

func genMix(rt *rapid.T) *cMix {
	target := rapid.SampledFrom([]string{"mutexmap", "container", "mutexmap", "container", "counter", "flag", "uint32", "uint64", "int64", "string"}).Draw(rt, "target")
	nthreads := rapid.SampledFrom([]int{2, 2, 3, 4, 4, 6, 8, 16}).Draw(rt, "threads")
	maxOps := 10
	if nthreads > 8 {
		maxOps = 4
	} else if nthreads > 4 {
		maxOps = 6
	}
	var kinds []string
	switch target {
	case "mutexmap", "container":
		kinds = []string{"get", "get", "insert", "insert", "set", "set", "remove", "remove", "len", "keys"}
	case "counter":
		kinds = []string{"add", "sub", "inc", "dec", "get", "getu", "reset", "add", "inc", "set"}
	case "flag":
		kinds = []string{"fset", "funset", "ftoggle", "fisset", "fisset"}
	default:
		kinds = []string{"set", "set", "get"}
	}
	mx := &cMix{Target: target}
	val := int64(0)
	for i := 0; i < nthreads; i++ {
		n := rapid.IntRange(1, maxOps).Draw(rt, "nops")
		ops := make([]cOp, n)
		for j := range ops {
			val++
			ops[j] = cOp{Kind: rapid.SampledFrom(kinds).Draw(rt, "kind"), Key: rapid.SampledFrom([]string{"a", "b", "c", "d"}).Draw(rt, "key"), Val: val}
			if target == "flag" {
				ops[j].Val = val % 2
			}
			if target == "mutexmap" && rapid.IntRange(0, 3).Draw(rt, "nil-value") == 0 {
				ops[j].Val = 0 // stored as an untyped nil: a key that is present with a nil value is present
			}
			if target == "counter" && (ops[j].Kind == "add" || ops[j].Kind == "sub") {
				ops[j].Val = int64(rapid.IntRange(-3, 1000).Draw(rt, "delta"))
			}
		}
		mx.Threads = append(mx.Threads, ops)
	}
	return mx
}

// ---- live world under concurrent reconfiguration ----

type liveOp struct {
	Kind string `json:"k"` // skv create adduri update mint transfer ...
	Size int    `json:"size"`
	// Tight: GasProvided = (charge under the expensive schedule) - 1, which the cheap schedule covers: the execution
	// either fails (expensive schedule in force) or succeeds consuming exactly the cheap charge; an execution admitted
	// under one schedule and charged by the other shows up as GasRemaining above GasProvided
	Tight bool `json:"tight,omitempty"`
	// Starved: GasProvided = 1 in the baselines and in the concurrent run alike - the rejected-call paths (which must
	// leave nothing behind in the function object, e.g. no lock) run under concurrency too
	Starved bool `json:"starved,omitempty"`
	// Over: the amount is far above what the account holds - the call is rejected by the balance check, deep inside
	// the function, in all runs alike
	Over bool `json:"over,omitempty"`
}

type liveCase struct {
	Threads [][]liveOp `json:"threads"`
	Flips   int        `json:"flips"`
	Epochs  []uint32   `json:"epochs"`
	// StopEarly: the reconfiguring goroutine stops after exactly Flips changes, possibly while executions are still
	// running; afterwards (all quiet) every priced function is probed once and must be charged by the LAST schedule
	// delivered - a change that has returned is in force
	StopEarly bool `json:"stop_early,omitempty"`
}

// liveProbes: one execution of every priced shape, run by every goroutine's owner after the concurrent phase
var liveProbes = []string{"transfer", "mint", "localburn", "burn", "skv", "create", "adduri", "update", "addq", "nftburn", "nfttransfer", "nft-xshard",
	"multi", "multi-xshard", "transfer-call", "setusername", "changeowner", "claim"}

// counters for the evidence: concurrent executions with GasProvided between the two schedules' charges, and how many of
// them were admitted (ran under the cheap schedule)
var liveTightOps, liveTightAdmitted int64

// kinds whose success or failure cannot influence what a LATER operation of the same goroutine is charged or whether it
// succeeds (they touch nonce 1, unique keys, fungible balances or account fields only); only these get tight gas,
// because a tight operation may legitimately fail in the concurrent run while it succeeds in the baselines
var liveTightSafe = map[string]bool{"skv": true, "create": true, "adduri": true, "update": true, "mint": true, "localburn": true, "burn": true,
	"addq": true, "nftburn": true, "transfer": true, "setusername": true, "changeowner": true, "claim": true, "transfer-call": true}

// kinds that take from a holding (an amount above it is rejected by the balance check)
var liveOverKinds = map[string]bool{"burn": true, "localburn": true, "transfer": true, "transfer-call": true, "transfer-xshard": true, "nftburn": true,
	"nfttransfer": true, "nft-xshard": true, "nft-call": true, "nft-xshard-call": true, "multi": true, "multi-xshard": true, "multi-call": true, "multi-xshard-call": true}

type liveObs struct {
	out                 *vmcommon.VMOutput // as returned (not a copy)
	outWas              string             // its rendering at that moment
	fn                  string
	consumed            uint64
	provided, remaining uint64
	tight               bool
	ok                  bool
	err                 error
	pan                 interface{}
}

// c19Live: every goroutine works on accounts and tokens of its own, so WHETHER each of its operations succeeds and WHAT
// it is charged must not depend on what the other goroutines, the schedule flipper or the notifier do.  The same
// operation lists are first run alone under schedule A and alone under schedule B (two sequential baselines); in the
// concurrent run every successful execution must consume exactly what it consumed under A or under B - a whole charge by
// one schedule, whatever the function - and (operations with ample gas) succeed exactly when it did in the baselines.
func c19Live(lc *liveCase) (string, string, int) {
	baseA, sig, msg, _ := c19LiveRun(lc, "A", nil, nil)
	if sig != "" {
		return "live/baseline/" + sig, "sequential baseline run under schedule A: " + msg, 0
	}
	baseB, sig, msg, _ := c19LiveRun(lc, "B", nil, nil)
	if sig != "" {
		return "live/baseline/" + sig, "sequential baseline run under schedule B: " + msg, 0
	}
	hangEnter([]string{"C19"}, "live/executions-never-return", "live", lc, "concurrent executions under reconfiguration")
	defer hangLeave()
	_, sig, msg, n := c19LiveRun(lc, "concurrent", baseA, baseB)
	return sig, msg, n
}

func c19LiveRun(lc *liveCase, mode string, baseA, baseB [][]liveObs) ([][]liveObs, string, string, int) {
	concurrent := mode == "concurrent"
	gasA, gasB := DistinctGas(1), DistinctGas(1)
	// B differs from A in every entry, is dearer everywhere and is not a multiple of it
	i := uint64(0)
	for _, sect := range []string{refBaseOperationCostSection, refBuiltInCostSection} {
		names := baseCostNames
		if sect == refBuiltInCostSection {
			names = builtInCostNames
		}
		for _, n := range names {
			i++
			gasB[sect][n] = gasA[sect][n]*1000 + 7*i + 1
		}
	}
	dns := scAddr(0, 0)
	start0 := gasA
	if mode == "B" {
		start0 = gasB
	}
	// two shards: the goroutines' accounts live on shard 0, so transfers to shard-1 addresses are sender-side executions
	// that price the copied NFT payload
	sh, err := NewShard(ShardConfig{NShards: 2, Self: 0, Gas: start0, ActivationEpoch: 1, DNS: []HB{HB(dns)}, EnableNameChange: true})
	if err != nil {
		return nil, "live/factory", err.Error(), 0
	}
	w := &World{Shards: []*Shard{sh}}
	nthreads := len(lc.Threads)
	sys := refESDTSC
	must := func(c *Call) error {
		r := w.Exec(c)
		if !r.OK() {
			return fmt.Errorf("setup call %s failed: %v %v", c.String(), r.Err, r.Panic)
		}
		return nil
	}
	type priv struct{ a, b, sc, remote, remoteSC, ftok, ntok []byte }
	ps := make([]priv, nthreads)
	for t := 0; t < nthreads; t++ {
		p := priv{a: userAddr(2*t, 0), b: userAddr(2*t+1, 0), sc: scAddr(1+t, 0), remote: userAddr(2*t, 1), remoteSC: scAddr(1+t, 1),
			ftok: []byte(fmt.Sprintf("FT%02d-aaaaaa", t)), ntok: []byte(fmt.Sprintf("NT%02d-bbbbbb", t))}
		ps[t] = p
		// a contract of the goroutine's own, owned by its first account, with developer rewards to claim
		sca := sh.get(p.sc)
		sca.Owner = cp(p.a)
		sca.Reward = new(big.Int).Lsh(big.NewInt(1), 80)
		big40 := new(big.Int).Lsh(big.NewInt(1), 40).Bytes()
		setup := []*Call{
			{Fn: refBuiltInFunctionESDTTransfer, Caller: sys, Rcv: p.a, Args: hbs(p.ftok, new(big.Int).Lsh(big.NewInt(1), 60).Bytes())},
			{Fn: refBuiltInFunctionSetESDTRole, Caller: sys, Rcv: p.a, Args: hbs(p.ftok, []byte(refESDTRoleLocalMint), []byte(refESDTRoleLocalBurn))},
			{Fn: refBuiltInFunctionSetESDTRole, Caller: sys, Rcv: p.a, Args: hbs(p.ntok, []byte(refESDTRoleNFTCreate), []byte(refESDTRoleNFTAddQuantity), []byte(refESDTRoleNFTBurn), []byte(refESDTRoleNFTAddURI), []byte(refESDTRoleNFTUpdateAttributes))},
			// nonce 1: the piece that is updated, added to and burnt; nonce 2: the pieces that travel
			{Fn: refBuiltInFunctionESDTNFTCreate, Caller: p.a, Rcv: p.a, Gas: ampleGas, Args: hbs(p.ntok, big40, []byte("n"), []byte{}, []byte("h"), []byte{}, []byte("u"))},
			{Fn: refBuiltInFunctionESDTNFTCreate, Caller: p.a, Rcv: p.a, Gas: ampleGas, Args: hbs(p.ntok, big40, []byte("travels"), []byte{}, []byte("h2"), []byte("some attributes"), []byte("u1"), []byte("u2"))},
		}
		for _, c := range setup {
			if err := must(c); err != nil {
				return nil, "live/setup", err.Error(), 0
			}
		}
	}
	sh.tracking, sh.concurrent = false, concurrent
	results := make([][]liveObs, nthreads)
	start := make(chan struct{})
	var wg sync.WaitGroup
	var stop int32
	// every goroutine's list is followed by the probes (run in the baselines too, so that their charges are known)
	opsOf := make([][]liveOp, nthreads)
	for t := range opsOf {
		opsOf[t] = append(append([]liveOp{}, lc.Threads[t]...), make([]liveOp, len(liveProbes))...)
		for k, kind := range liveProbes {
			opsOf[t][len(lc.Threads[t])+k] = liveOp{Kind: kind, Size: 1}
		}
	}
	runThread := func(t, from, to int) {
		p := ps[t]
		two := []byte{2}
		for j := from; j < to; j++ {
			op := opsOf[t][j]
			one := []byte{1}
			if op.Over && liveOverKinds[op.Kind] {
				one = new(big.Int).Lsh(big.NewInt(1), 200).Bytes() // above every holding, whatever was minted or added
			}
			blob := make([]byte, op.Size)
			for x := range blob {
				blob[x] = byte('a' + x%26)
			}
			var c *Call
			switch op.Kind {
			case "skv":
				c = &Call{Fn: refBuiltInFunctionSaveKeyValue, Caller: p.a, Rcv: p.a, Args: hbs([]byte(fmt.Sprintf("key-%d-%d", t, j)), append([]byte("v"), blob...))}
			case "create":
				c = &Call{Fn: refBuiltInFunctionESDTNFTCreate, Caller: p.a, Rcv: p.a, Args: hbs(p.ntok, one, blob, []byte{}, []byte("h"), blob, []byte("u"))}
			case "adduri":
				c = &Call{Fn: refBuiltInFunctionESDTNFTAddURI, Caller: p.a, Rcv: p.a, Args: hbs(p.ntok, one, append([]byte("u"), blob...))}
			case "update":
				c = &Call{Fn: refBuiltInFunctionESDTNFTUpdateAttributes, Caller: p.a, Rcv: p.a, Args: hbs(p.ntok, one, append([]byte("a"), blob...))}
			case "mint":
				c = &Call{Fn: refBuiltInFunctionESDTLocalMint, Caller: p.a, Rcv: p.a, Args: hbs(p.ftok, one)}
			case "localburn":
				c = &Call{Fn: refBuiltInFunctionESDTLocalBurn, Caller: p.a, Rcv: p.a, Args: hbs(p.ftok, one)}
			case "burn":
				c = &Call{Fn: refBuiltInFunctionESDTBurn, Caller: p.a, Rcv: sys, Args: hbs(p.ftok, one)}
			case "addq":
				c = &Call{Fn: refBuiltInFunctionESDTNFTAddQuantity, Caller: p.a, Rcv: p.a, Args: hbs(p.ntok, one, two)}
			case "nftburn":
				c = &Call{Fn: refBuiltInFunctionESDTNFTBurn, Caller: p.a, Rcv: p.a, Args: hbs(p.ntok, one, one)}
			case "nfttransfer":
				c = &Call{Fn: refBuiltInFunctionESDTNFTTransfer, Caller: p.a, Rcv: p.a, Args: hbs(p.ntok, two, one, p.b)}
			case "nft-xshard":
				c = &Call{Fn: refBuiltInFunctionESDTNFTTransfer, Caller: p.a, Rcv: p.a, Args: hbs(p.ntok, two, one, p.remote)}
			case "nft-call":
				c = &Call{Fn: refBuiltInFunctionESDTNFTTransfer, Caller: p.a, Rcv: p.a, Args: hbs(p.ntok, two, one, p.sc, []byte("accept"), blob)}
			case "nft-xshard-call":
				c = &Call{Fn: refBuiltInFunctionESDTNFTTransfer, Caller: p.a, Rcv: p.a, Args: hbs(p.ntok, two, one, p.remoteSC, []byte("accept"), blob)}
			case "multi":
				c = &Call{Fn: refBuiltInFunctionMultiESDTNFTTransfer, Caller: p.a, Rcv: p.a, Args: hbs(p.b, two, p.ftok, []byte{0}, one, p.ntok, two, one)}
			case "multi-xshard":
				c = &Call{Fn: refBuiltInFunctionMultiESDTNFTTransfer, Caller: p.a, Rcv: p.a, Args: hbs(p.remote, two, p.ftok, []byte{0}, one, p.ntok, two, one)}
			case "multi-call":
				c = &Call{Fn: refBuiltInFunctionMultiESDTNFTTransfer, Caller: p.a, Rcv: p.a, Args: hbs(p.sc, two, p.ftok, []byte{0}, one, p.ntok, two, one, []byte("accept"), blob)}
			case "multi-xshard-call":
				c = &Call{Fn: refBuiltInFunctionMultiESDTNFTTransfer, Caller: p.a, Rcv: p.a, Args: hbs(p.remoteSC, two, p.ftok, []byte{0}, one, p.ntok, two, one, []byte("accept"), blob)}
			case "transfer-call":
				c = &Call{Fn: refBuiltInFunctionESDTTransfer, Caller: p.a, Rcv: p.sc, Args: hbs(p.ftok, one, []byte("accept"), blob)}
			case "transfer-xshard":
				c = &Call{Fn: refBuiltInFunctionESDTTransfer, Caller: p.a, Rcv: p.remote, Args: hbs(p.ftok, one)}
			case "freeze":
				c = &Call{Fn: refBuiltInFunctionESDTFreeze, Caller: sys, Rcv: p.b, Args: hbs([]byte(fmt.Sprintf("ZZ%02d-dddddd", t)))}
			case "unfreeze":
				c = &Call{Fn: refBuiltInFunctionESDTUnFreeze, Caller: sys, Rcv: p.b, Args: hbs([]byte(fmt.Sprintf("ZZ%02d-dddddd", t)))}
			case "pause":
				c = &Call{Fn: refBuiltInFunctionESDTPause, Caller: sys, Rcv: refSystemAccount, Args: hbs([]byte(fmt.Sprintf("XX%02d-cccccc", t)))}
			case "unpause":
				c = &Call{Fn: refBuiltInFunctionESDTUnPause, Caller: sys, Rcv: refSystemAccount, Args: hbs([]byte(fmt.Sprintf("XX%02d-cccccc", t)))}
			case "setrole":
				c = &Call{Fn: refBuiltInFunctionSetESDTRole, Caller: sys, Rcv: p.b, Args: hbs(p.ftok, []byte(refESDTRoleLocalBurn))}
			case "unsetrole":
				c = &Call{Fn: refBuiltInFunctionUnSetESDTRole, Caller: sys, Rcv: p.b, Args: hbs(p.ftok, []byte(refESDTRoleLocalBurn))}
			case "setusername":
				c = &Call{Fn: refBuiltInFunctionSetUserName, Caller: dns, Rcv: p.b, Args: hbs(append([]byte("name"), blob...))}
			case "setusername-xshard":
				c = &Call{Fn: refBuiltInFunctionSetUserName, Caller: dns, Rcv: p.remote, Args: hbs(append([]byte("name"), blob...))}
			case "changeowner":
				c = &Call{Fn: refBuiltInFunctionChangeOwnerAddress, Caller: p.a, Rcv: p.sc, Args: hbs(p.a)}
			case "claim":
				c = &Call{Fn: refBuiltInFunctionClaimDeveloperRewards, Caller: p.a, Rcv: p.sc}
			case "wipe":
				c = &Call{Fn: refBuiltInFunctionESDTWipe, Caller: sys, Rcv: p.b, Args: hbs([]byte(fmt.Sprintf("ZZ%02d-dddddd", t)))}
			default:
				c = &Call{Fn: refBuiltInFunctionESDTTransfer, Caller: p.a, Rcv: p.b, Args: hbs(p.ftok, one)}
			}
			c.Gas = ampleGas
			o := liveObs{fn: c.Fn}
			if op.Starved {
				c.Gas = 1
			} else if concurrent && op.Tight && liveTightSafe[op.Kind] {
				a, b := baseA[t][j], baseB[t][j]
				if a.ok && b.ok && a.consumed > 0 && b.consumed > a.consumed {
					c.Gas = b.consumed - 1
					o.tight = true
				}
			}
			o.provided = c.Gas
			func() {
				defer func() { o.pan = recover() }()
				fn, _ := sh.Container.Get(c.Fn)
				snd, dst := sh.accountsFor(c)
				out, err := fn.ProcessBuiltinFunction(snd, dst, layOut(c).in)
				o.err = err
				if err == nil && out != nil {
					sh.nodeSave(c, snd, dst)
					o.ok = true
					o.out, o.outWas = out, canonOutput(&Result{Out: out})
					o.remaining = out.GasRemaining
					spent := out.GasRemaining
					for _, oa := range out.OutputAccounts {
						for _, ot := range oa.OutputTransfers {
							spent += ot.GasLimit
						}
					}
					o.consumed = c.Gas - spent
					if spent > c.Gas {
						o.remaining = spent // reported below as gas created
					}
				}
			}()
			results[t] = append(results[t], o)
		}
	}
	// what a call returned belongs to the node from then on: no later execution may reach into it
	outputsIntact := func() (string, string) {
		for t, rs := range results {
			for j, o := range rs {
				if o.out != nil {
					if now := canonOutput(&Result{Out: o.out}); now != o.outWas {
						return "live/" + o.fn + "/earlier-output-changed-by-a-later-execution", fmt.Sprintf("goroutine %d op %d (%s) returned\n  %s\nwhich, after later executions, reads\n  %s", t, j, o.fn, o.outWas, now)
					}
				}
			}
		}
		return "", ""
	}
	if !concurrent {
		for t := 0; t < nthreads; t++ {
			runThread(t, 0, len(opsOf[t]))
		}
		if sig, msg := outputsIntact(); sig != "" {
			return nil, sig, msg, 0
		}
		for t, rs := range results {
			for j, o := range rs {
				if o.pan != nil {
					return nil, "live/" + o.fn + "/panic", fmt.Sprintf("thread %d op %d (%s) panicked: %v", t, j, o.fn, o.pan), 0
				}
			}
		}
		return results, "", "", 0
	}
	var execDone, lastIsB int32
	var execWG sync.WaitGroup
	for t := 0; t < nthreads; t++ {
		wg.Add(1)
		execWG.Add(1)
		go func(t int) {
			defer wg.Done()
			defer execWG.Done()
			<-start
			runThread(t, 0, len(lc.Threads[t]))
		}(t)
	}
	go func() { execWG.Wait(); atomic.StoreInt32(&execDone, 1) }()
	// the single reconfiguring goroutine, the notifier and two readers
	wg.Add(1)
	go func() {
		defer wg.Done()
		<-start
		// keeps flipping for as long as executions are running (at least lc.Flips times) - or, StopEarly, exactly
		// lc.Flips times; which schedule was delivered last is remembered
		for i := 0; i < lc.Flips || (!lc.StopEarly && atomic.LoadInt32(&execDone) == 0); i++ {
			if i%2 == 0 {
				sh.Factory.GasScheduleChange(copyGas(gasB))
				atomic.StoreInt32(&lastIsB, 1)
			} else {
				sh.Factory.GasScheduleChange(copyGas(gasA))
				atomic.StoreInt32(&lastIsB, 0)
			}
			if i%4 == 3 {
				runtime.Gosched()
			}
		}
	}()
	wg.Add(1)
	go func() {
		defer wg.Done()
		<-start
		for _, e := range lc.Epochs {
			sh.notifier.confirm(e)
			runtime.Gosched()
		}
	}()
	var readers sync.WaitGroup
	for r := 0; r < 2; r++ {
		readers.Add(1)
		go func() {
			defer readers.Done()
			<-start
			for atomic.LoadInt32(&stop) == 0 {
				for name := range sh.Container.Keys() {
					if f, err := sh.Container.Get(name); err == nil {
						_ = f.IsActive()
					}
				}
				_ = sh.Container.Len()
				runtime.Gosched()
			}
		}()
	}
	close(start)
	wg.Wait()
	atomic.StoreInt32(&stop, 1)
	readers.Wait()
	// all quiet: the probes, one goroutine's after the other's
	sh.concurrent = false
	for t := 0; t < nthreads; t++ {
		runThread(t, len(lc.Threads[t]), len(opsOf[t]))
	}
	if sig, msg := outputsIntact(); sig != "" {
		return nil, sig, msg, 0
	}
	n := 0
	for t, rs := range results {
		for j, o := range rs {
			n++
			a, b := baseA[t][j], baseB[t][j]
			if j >= len(lc.Threads[t]) {
				// a probe: charged by the schedule delivered last
				want, name := a, "A"
				if atomic.LoadInt32(&lastIsB) == 1 {
					want, name = b, "B"
				}
				if o.pan != nil || (want.ok && (!o.ok || o.consumed != want.consumed)) {
					return nil, "live/" + o.fn + "/schedule-change-not-in-force-after-quiescence", fmt.Sprintf("after all executions and %d schedule changes had returned (the last one delivered schedule %s), goroutine %d's probe of %s: success=%v consumed %d (error %v, panic %v); run alone under schedule %s it consumes %d", lc.Flips, name, t, o.fn, o.ok, o.consumed, o.err, o.pan, name, want.consumed), n
				}
				continue
			}
			if o.tight {
				atomic.AddInt64(&liveTightOps, 1)
				if o.ok {
					atomic.AddInt64(&liveTightAdmitted, 1)
				}
			}
			if o.pan != nil {
				return nil, "live/" + o.fn + "/panic", fmt.Sprintf("goroutine %d op %d (%s) panicked: %v", t, j, o.fn, o.pan), n
			}
			if o.ok && o.remaining > o.provided {
				return nil, "live/" + o.fn + "/admitted-by-one-schedule-charged-by-another", fmt.Sprintf("goroutine %d op %d (%s) was given %d gas and returned GasRemaining + forwarded gas = %d: run alone it consumes %d under schedule A and %d under schedule B - admitted under one, charged by the other", t, j, o.fn, o.provided, o.remaining, a.consumed, b.consumed), n
			}
			if !o.tight && a.ok == b.ok && o.ok != a.ok {
				return nil, "live/" + o.fn + "/outcome-depends-on-concurrency", fmt.Sprintf("goroutine %d op %d (%s) on its private accounts: success=%v (error %v) under concurrent executions and reconfiguration, success=%v when the same operations run alone (under either schedule)", t, j, o.fn, o.ok, o.err, a.ok), n
			}
			if o.ok && a.ok && b.ok && o.consumed != a.consumed && o.consumed != b.consumed {
				return nil, "live/" + o.fn + "/mixed-schedule-charge", fmt.Sprintf("goroutine %d op %d (%s) consumed %d gas: run alone it consumes %d under schedule A and %d under schedule B - this is neither, i.e. a mixture", t, j, o.fn, o.consumed, a.consumed, b.consumed), n
			}
		}
	}
	return results, "", "", n
}

func genLive(rt *rapid.T) *liveCase {
	lc := &liveCase{Flips: rapid.IntRange(1, 60).Draw(rt, "flips")}
	n := rapid.SampledFrom([]int{2, 3, 4, 8}).Draw(rt, "live-threads")
	// one case in two is FOCUSED: every goroutine repeats one and the same operation kind, many times, while the
	// schedule keeps changing and the changes stop while executions still run - so that the last change almost surely
	// arrives while that function executes (a setter that gives up when it cannot get the lock at once drops it), and
	// the probe after quiescence looks at that function
	focus := ""
	if rapid.IntRange(0, 1).Draw(rt, "live-focused") == 0 {
		focus = rapid.SampledFrom(liveProbes).Draw(rt, "live-focus-kind")
		lc.Flips = 30 + rapid.IntRange(0, 30).Draw(rt, "focus-flips")
	}
	for i := 0; i < n; i++ {
		k := rapid.IntRange(1, 40).Draw(rt, "live-nops")
		if focus != "" {
			k = 40
		}
		ops := make([]liveOp, k)
		// one goroutine in three does the same thing over and over: that function is then busy most of the time, so a
		// reconfiguration is likely to arrive while it executes
		same := ""
		if rapid.IntRange(0, 2).Draw(rt, "live-monotone") == 0 {
			same = rapid.SampledFrom(liveProbes).Draw(rt, "live-monotone-kind")
		}
		for j := range ops {
			ops[j] = liveOp{Kind: rapid.SampledFrom([]string{"skv", "create", "adduri", "update", "mint", "transfer", "skv", "create", "adduri", "update", "skv", "create", "adduri", "update", "localburn", "burn", "addq", "nftburn", "nfttransfer", "multi", "freeze", "unfreeze", "pause", "unpause", "setrole", "unsetrole", "adduri", "update", "setusername", "changeowner", "claim", "wipe", "setusername", "mint", "localburn", "burn", "addq", "nftburn", "transfer",
				"setusername-xshard", "setusername-xshard", "nft-xshard", "nft-xshard", "nft-call", "nft-xshard-call", "multi-xshard", "multi-xshard", "multi-call", "multi-xshard-call", "transfer-call", "transfer-call", "transfer-xshard", "nfttransfer", "multi"}).Draw(rt, "live-kind"), Size: rapid.SampledFrom([]int{0, 1, 17, 200}).Draw(rt, "live-size"), Tight: rapid.IntRange(0, 2).Draw(rt, "live-tight") == 0, Starved: rapid.IntRange(0, 7).Draw(rt, "live-starved") == 0, Over: rapid.IntRange(0, 7).Draw(rt, "live-over") == 0}
			if same != "" {
				ops[j].Kind = same
			}
			if focus != "" {
				ops[j].Kind = focus
			}
		}
		lc.Threads = append(lc.Threads, ops)
	}
	lc.StopEarly = rapid.Bool().Draw(rt, "live-stop-early") || focus != ""
	ne := rapid.IntRange(0, 10).Draw(rt, "live-nepochs")
	for i := 0; i < ne; i++ {
		lc.Epochs = append(lc.Epochs, rapid.SampledFrom([]uint32{0, 1, 2, 0, 5}).Draw(rt, "live-epoch"))
	}
	return lc
}

func TestC19(t *testing.T) {
	st := NewStats("C19")
	defer finish(t, st)
	rounds := EnvInt("VERIF_C19_ROUNDS", 3)
	// fixed conservation workloads on the atomic types first (arithmetic oracle: nothing added may disappear)
	if sig, msg, n := c19AtomicStress(2 * rounds); sig != "" {
		failPlain(t, st, "C19", "atomic-stress", map[string]interface{}{"rounds": 2 * rounds}, sig, msg)
	} else {
		st.Eval(int64(2 * rounds * 5)) // five fixed workloads per round
		st.AddExtra("atomic_conservation_operations", int64(n))
	}
	rapid.Check(t, func(rt *rapid.T) {
		mx := genMix(rt)
		sig, msg, overlaps, unknown := c19Mix(mx, rounds)
		st.Eval(int64(rounds))
		st.AddExtra("histories_with_overlap", int64(overlaps))
		st.AddExtra("linearizability_check_timeouts", int64(unknown))
		mutating := false
		for _, th := range mx.Threads {
			for _, op := range th {
				if op.Kind != "get" && op.Kind != "len" && op.Kind != "keys" && op.Kind != "fisset" && op.Kind != "getu" {
					mutating = true
				}
			}
		}
		if overlaps > 0 && mutating {
			js, _ := json.Marshal(mx)
			st.NT(string(js))
			st.Label(sprintf("mix/%s/threads=%d", mx.Target, len(mx.Threads)))
			st.Sample("mix-"+mx.Target, mx)
		}
		if sig != "" {
			failRapid(rt, st, "C19", "mix", mx, sig, msg)
		}
		if rapid.IntRange(0, 1).Draw(rt, "with-monotone") == 0 {
			target := rapid.SampledFrom([]string{"mutexmap", "container"}).Draw(rt, "mono-target")
			n := rapid.SampledFrom([]int{8, 32, 128}).Draw(rt, "mono-keys")
			obs := rapid.IntRange(1, 3).Draw(rt, "mono-observers")
			sig, msg, checks := c19Monotone(target, n, obs)
			st.Eval(1)
			st.AddExtra("monotone_runs", 1)
			st.AddExtra("monotone_observer_checks", int64(checks))
			if sig != "" {
				failRapid(rt, st, "C19", "monotone", map[string]interface{}{"target": target, "keys": n, "observers": obs}, sig, msg)
			}
		}
		if rapid.IntRange(0, 3).Draw(rt, "with-live") == 0 {
			lc := genLive(rt)
			sig, msg, n := c19Live(lc)
			st.Eval(int64(n))
			st.AddExtra("concurrent_executions", int64(n))
			st.AddExtra("concurrent_executions_with_gas_between_the_two_charges", atomic.SwapInt64(&liveTightOps, 0))
			st.AddExtra("of_those_admitted_under_the_cheap_schedule", atomic.SwapInt64(&liveTightAdmitted, 0))
			js, _ := json.Marshal(lc)
			st.NT("live:" + string(js))
			st.Label(sprintf("live/threads=%d", len(lc.Threads)))
			st.Sample("live", lc)
			if sig != "" {
				failRapid(rt, st, "C19", "live", lc, sig, msg)
			}
		}
	})
}

func replayC19(kind string, raw json.RawMessage) (string, string) {
	switch kind {
	case "mix":
		var mx cMix
		if err := json.Unmarshal(raw, &mx); err != nil {
			return "replay/bad-file", err.Error()
		}
		sig, msg, _, _ := c19Mix(&mx, 2000) // schedules are sampled: repeat
		return sig, msg
	case "live":
		var lc liveCase
		if err := json.Unmarshal(raw, &lc); err != nil {
			return "replay/bad-file", err.Error()
		}
		for i := 0; i < 200; i++ {
			if sig, msg, _ := c19Live(&lc); sig != "" {
				return sig, msg
			}
		}
		return "", ""
	case "atomic-stress":
		return replayC19Stress()
	case "monotone":
		var m struct {
			Target    string `json:"target"`
			Keys      int    `json:"keys"`
			Observers int    `json:"observers"`
		}
		if err := json.Unmarshal(raw, &m); err != nil {
			return "replay/bad-file", err.Error()
		}
		for i := 0; i < 3000; i++ {
			if sig, msg, _ := c19Monotone(m.Target, m.Keys, m.Observers); sig != "" {
				return sig, msg
			}
		}
		return "", ""
	case "rerun":
		return "", "" // handled by the driver: it re-runs TestC19 under -race with the recorded seed
	}
	return "replay/unknown-kind", kind
}

func init() { replayers["C19"] = replayC19 }
