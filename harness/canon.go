package harness

// Canonical, address-free serialisation of an execution result and of a shard's ledger (maps sorted), used by the
// determinism check: two executions agree iff these strings are byte-identical.

import (
	"fmt"
	"sort"
	"strings"

	vmcommon "github.com/ElrondNetwork/elrond-vm-common"
)

func canonOutput(res *Result) string {
	var b strings.Builder
	if res.Panic != nil {
		fmt.Fprintf(&b, "panic=%v;", res.Panic)
	}
	if res.Err != nil {
		fmt.Fprintf(&b, "err=%s;", res.Err.Error())
	}
	o := res.Out
	if o == nil {
		b.WriteString("out=nil")
		return b.String()
	}
	fmt.Fprintf(&b, "rc=%d;msg=%q;gas=%d;refund=%v;", o.ReturnCode, o.ReturnMessage, o.GasRemaining, o.GasRefund)
	for _, d := range o.ReturnData {
		fmt.Fprintf(&b, "ret=%x;", d)
	}
	for _, l := range o.Logs {
		if l == nil {
			b.WriteString("log=nil;")
			continue
		}
		fmt.Fprintf(&b, "log{id=%x addr=%x data=%x", l.Identifier, l.Address, l.Data)
		for _, t := range l.Topics {
			fmt.Fprintf(&b, " t=%x", t)
		}
		b.WriteString("};")
	}
	keys := make([]string, 0, len(o.OutputAccounts))
	for k := range o.OutputAccounts {
		keys = append(keys, k)
	}
	sort.Strings(keys)
	for _, k := range keys {
		oa := o.OutputAccounts[k]
		if oa == nil {
			fmt.Fprintf(&b, "oa[%x]=nil;", k)
			continue
		}
		fmt.Fprintf(&b, "oa[%x]{addr=%x nonce=%d bal=%v delta=%v code=%x meta=%x dep=%x gasused=%d", k, oa.Address, oa.Nonce, oa.Balance, oa.BalanceDelta, oa.Code, oa.CodeMetadata, oa.CodeDeployerAddress, oa.GasUsed)
		sk := make([]string, 0, len(oa.StorageUpdates))
		for x := range oa.StorageUpdates {
			sk = append(sk, x)
		}
		sort.Strings(sk)
		for _, x := range sk {
			u := oa.StorageUpdates[x]
			if u != nil {
				fmt.Fprintf(&b, " su[%x]=%x/%x", x, u.Offset, u.Data)
			}
		}
		for _, t := range oa.OutputTransfers {
			fmt.Fprintf(&b, " ot{v=%v gl=%d lock=%d data=%q type=%d snd=%x}", t.Value, t.GasLimit, t.GasLocked, t.Data, t.CallType, t.SenderAddress)
		}
		b.WriteString("};")
	}
	for _, d := range o.DeletedAccounts {
		fmt.Fprintf(&b, "del=%x;", d)
	}
	for _, d := range o.TouchedAccounts {
		fmt.Fprintf(&b, "touched=%x;", d)
	}
	return b.String()
}

func canonShard(s *Shard) string {
	var b strings.Builder
	addrs := make([]string, 0, len(s.Accounts))
	for k := range s.Accounts {
		addrs = append(addrs, k)
	}
	sort.Strings(addrs)
	for _, k := range addrs {
		a := s.Accounts[k]
		if len(a.Storage) == 0 && len(a.Owner) == 0 && len(a.UserName) == 0 && a.Balance.Sign() == 0 && a.Reward.Sign() == 0 {
			continue // an account that was merely loaded
		}
		fmt.Fprintf(&b, "acct %x owner=%x name=%x bal=%v reward=%v", k, a.Owner, a.UserName, a.Balance, a.Reward)
		for _, sk := range sortedKeys(a.Storage) {
			fmt.Fprintf(&b, " [%x]=%x", sk, a.Storage[sk])
		}
		b.WriteString("\n")
	}
	return b.String()
}

var _ = vmcommon.Ok
