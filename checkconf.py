"""Per-property configuration of the driver: which test decides it, budgets per tier, the non-triviality rule."""

ASSUMPTIONS = {
    "N1": "N1: a call executes on one shard; acntSnd/acntDst are the caller's/recipient's account iff it lives on that shard, else nil; vmInput and CallValue are never nil; addresses are 32 bytes",
    "N2": "N2: an error or panic rolls the executing shard back to its pre-call state; success keeps the state",
    "N3": "N3: a successful sender-side execution addressed to another shard leaves one in-flight message (the emitted OutputTransfer, or the user's own transaction when nothing is emitted); messages are delivered in any order with acntSnd=nil",
    "N4": "N4: the caller of a delivered message is the account at which the emitting call executed; output transfers addressed to the executing shard are not re-executed",
    "N5": "N5: a transfer message that fails on the destination shard is returned to the original sender as the same function with the transfer arguments plus one trailing non-empty argument and ReturnCallAfterError=true (elrond-go createSCRsWhenError shape)",
    "N6": "N6: the ESDT system contract is a disciplined message source: registered well-formed token identifiers only, never sets a role twice, one create-role holder per token, exactly-once delivery (a hand-over message may be re-delivered immediately)",
    "N7": "N7: call types other than DirectCall occur only for contract callers or contract-emitted messages; gas values are arbitrary 64-bit numbers",
    "N8": "N8: token holders are user and contract accounts; the per-shard system account and the ESDT system contract are not used as holders",
    "ENC": "the production wire encoding is elrond-go's GogoProtoMarshalizer (obj.Reset(); obj.Unmarshal / obj.Marshal on the generated gogo types), re-implemented in the harness",
    "WORLD": "the harness world (accounts with trie semantics, accounts adapter, shard coordinator, epoch notifier, payability oracle) stands in for the node",
}

ENGINE_ASSUMPTIONS = ["N1", "N2", "N3", "N4", "N5", "N6", "N7", "N8", "ENC", "WORLD"]

NOT_APPLICABLE = {}

PROPS = {
    "C20": {
        "test": "TestC20", "level": "exploration", "exhaustive_claim": True,
        "technique": "exhaustive enumeration of small byte/address domains + rapid-generated merge sequences against algebraic-law oracles",
        "level_text": "Every 2-byte input (65536) and all other lengths 0..4 over a 3-value alphabet are enumerated for the three flag codecs, "
                      "a structured address domain is enumerated for the classifiers, and tens of thousands of generated OutputAccount merge "
                      "sequences and SafeSub pairs are checked against the stated laws; complete for the enumerated sub-domains, sampled for merges.",
        "level_note": "Trusted: the reference predicates written from the exported layout constants (bit masks, address prefix lengths); reflect.DeepEqual as equality on OutputAccount.",
        "rule": "enumerated: every 2-byte input and all inputs of length 0,1,3,4 over {00,ff,07} through the three flag codecs; "
                "structured addresses of length 0..40 x 7 identifiers; SafeSub boundary pairs; generated (rapid): 2-4 independently "
                "built OutputAccounts merged left to right, random/near-equal SafeSub pairs. Non-trivial = any enumerated input that is "
                "not all-zero, a merge whose right-hand side has an overlapping storage key, a non-nil delta or transfers, any SafeSub "
                "pair; distinct by input (enumerated domains are distinct by construction and sharded between processes; generated "
                "cases are de-duplicated by a 64-bit hash of the rendered case). exhaustive=true refers to the enumerated "
                "sub-domains listed under exhaustive_subdomains only.",
        "assumptions": [],
        "quick": {"procs": 2, "checks": 15000, "timeout_s": 300},
        "thorough": {"procs": 16, "checks": 150000, "timeout_s": 1800},
    },
    "C14": {
        "test": "TestC14", "level": "exploration", "exhaustive_claim": True,
        "technique": "differential testing against an independent reference encoder/decoder: exhaustive small buffers for the amount codec, rapid-generated structured values, arbitrary and mutated bytes with a re-encode fixed-point oracle",
        "level_text": "The amount decoder is run on every buffer up to 2 (quick) / 3 (thorough) bytes; generated token / role-list / metadata values "
                      "(absent, empty and large fields, varint boundaries, huge and negative amounts) are encoded and compared byte for byte with a "
                      "reference encoder written from esdt.proto, sizes and round trips are checked, and arbitrary / mutated byte strings are decoded "
                      "under a no-panic and re-encode fixed-point oracle. Complete for the enumerated buffers, sampled elsewhere.",
        "level_note": "Trusted: the reference codec in harness/wire.go (written from data/esdt/proto/esdt.proto and the protobuf wire format); the production marshalizer convention obj.Reset();obj.Unmarshal.",
        "rule": "enumerated: amount decoder on every buffer of length <= 2 (quick) / <= 3 (thorough); amount encoder on boundary values into clean and "
                "dirty buffers; generated (rapid): ESDigitalToken/MetaData/ESDTRoles values, 0..64 arbitrary bytes, one mutation (bit flip, cut, "
                "append, insert) of a valid encoding. Non-trivial = a value with at least one non-default field, or a byte string a decoder "
                "accepts; distinct by the rendered value / the bytes (enumerated buffers are distinct by construction and sharded by process).",
        "assumptions": ["ENC"],
        "quick": {"procs": 4, "checks": 12000, "timeout_s": 300},
        "thorough": {"procs": 16, "checks": 250000, "timeout_s": 2400},
    },
    "C12": {
        "test": "TestC12", "level": "exploration", "exhaustive_claim": True,
        "technique": "exhaustive enumeration of short strings + rapid-generated round trips and hostile transfer-parser inputs against an independent reference parser / encoder",
        "level_text": "Every string up to 6 (quick) / 7 (thorough) characters over {letter,'@',hex digits in both cases,non-hex} goes through the call-args, "
                      "deploy-args and storage-updates parsers (no panic, result xor error, agreement with an independent split-and-hex reference on every "
                      "well-formed input); generated function/argument lists, builder programs, deploy data and storage-update lists are round-tripped; the "
                      "ESDT-transfer parser is driven with structured hostile inputs (64-bit wrap residues of 3n+c, truncated and value-less payloads). "
                      "Complete for the enumerated strings, sampled elsewhere.",
        "level_note": "Trusted: the reference tx-data codec TxEncode/TxDecode in harness/wire.go; domain restricted as the statement says (function names non-empty without '@'; storage lists non-empty with a non-empty first offset).",
        "rule": "enumerated: all strings of length <= 6 (quick) / <= 7 (thorough) over a 6-character alphabet through three parsers; generated (rapid): "
                "random strings up to 40 characters, (function, 0..6 args) lists with empty / zero / wrap-residue arguments, builder programs, deploy "
                "data, storage lists, ESDT-transfer-parser inputs. Non-trivial = an input at least one parser accepts, or one that contains a separator "
                "(and is therefore rejected by hex/arity validation rather than trivially), or a transfer-parser input that is accepted (its count "
                "passed the length test); distinct by the string / rendered case.",
        "assumptions": ["ENC"],
        "quick": {"procs": 4, "checks": 15000, "timeout_s": 300, "env": {"VERIF_C12_MAXLEN": 6}},
        "thorough": {"procs": 16, "checks": 300000, "timeout_s": 2400, "env": {"VERIF_C12_MAXLEN": 7}},
    },
}
