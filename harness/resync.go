package harness

// Resynchronisation.  When a clause of ANOTHER property fires while property P's check is running, the real ledger no
// longer equals the model.  Cutting the history there (the first design) makes P's check blind to everything that
// FOLLOWS from the other property's violation - e.g. a create counter stored wrongly (C07) that two creates later
// re-issues a nonce (C02's "fresh nonce").  Instead the model is rebuilt from the ledger as it now is - every account,
// key by key, read with the independent decoders - and the history continues under the full oracle from that state.
// A ledger that cannot be abstracted (undecodable entry, key outside the three layouts, entry of no issued token)
// still cuts the history.  On a tree where all properties hold no foreign clause ever fires, so this code never runs.

import (
	"bytes"
	"math/big"
	"strings"
)

// Resync rebuilds the model's shards, supply and issued-nonce sets from the world.  firstNewMsg is the number of
// in-flight messages that existed before the offending call; when dropNewMsgs is set the messages created by that call
// are retired (their content is what the foreign clause complained about).
func (e *Engine) Resync(firstNewMsg int, dropNewMsgs bool) bool {
	m := e.M
	if dropNewMsgs {
		for i := firstNewMsg; i < len(m.Msgs); i++ {
			m.Msgs[i].Done = true
		}
	}
	shards := make([]map[string]*MAccount, len(e.W.Shards))
	pauses := make([]map[string]bool, len(e.W.Shards))
	for i, s := range e.W.Shards {
		shards[i] = map[string]*MAccount{}
		pauses[i] = map[string]bool{}
		for addr, a := range s.Accounts {
			ma := newMAccount()
			isSys := bytes.Equal([]byte(addr), refSystemAccount)
			for k, val := range a.Storage {
				switch {
				case strings.HasPrefix(k, pfxESDT) && isSys:
					if len(val) != 2 {
						return false
					}
					pauses[i][k[len(pfxESDT):]] = val[0]&1 != 0
				case strings.HasPrefix(k, pfxESDT):
					sfx := k[len(pfxESDT):]
					t, err := RefDecodeToken(val)
					if err != nil || t.Value == nil || t.Value.Sign() < 0 {
						return false
					}
					info, rest := m.tokenOfSuffix(sfx)
					if info == nil {
						return false
					}
					nonce := new(big.Int).SetBytes([]byte(rest))
					carrier := len(rest) > 0 && t.Meta == nil && t.Value.Sign() == 0 && isFrozenProps(t.Properties) // freeze flag of a (token, nonce) not held
					if ((len(rest) > 0) != (t.Meta != nil) && !carrier) || !nonce.IsUint64() || (t.Meta != nil && t.Meta.Nonce != nonce.Uint64()) {
						return false
					}
					ma.Entries[sfx] = &Entry{Value: new(big.Int).Set(t.Value), Frozen: isFrozenProps(t.Properties), Meta: t.Meta.Clone()}
				case strings.HasPrefix(k, pfxRole):
					roles, err := RefDecodeRoles(val)
					if err != nil {
						return false
					}
					tok := k[len(pfxRole):]
					for _, r := range roles {
						ma.Roles[tok] = append(ma.Roles[tok], string(r))
					}
				case strings.HasPrefix(k, pfxNonce):
					n := new(big.Int).SetBytes(val)
					if !n.IsUint64() {
						return false
					}
					ma.Counter[k[len(pfxNonce):]] = n.Uint64()
				case strings.HasPrefix(k, refProtectedPrefix):
					return false
				default:
					ma.KV[k] = cp(val)
				}
			}
			ma.Owner, ma.UserName = cp(a.Owner), cp(a.UserName)
			ma.Reward.Set(a.Reward)
			ma.Balance.Set(a.Balance)
			shards[i][addr] = ma
		}
	}
	for i := range shards {
		m.Shards[i].Accounts = shards[i]
		m.Shards[i].PauseFlag = pauses[i]
	}
	// supply := what exists now (accounts + undelivered transfers); issued nonces grow by what is present
	m.Supply = map[string]*big.Int{}
	for _, sfx := range e.W.AllSuffixes() {
		m.Supply[sfx] = e.W.TotalAt(sfx)
	}
	for _, msg := range m.Msgs {
		if msg.Done || msg.Kind != "transfer" {
			continue
		}
		for _, it := range msg.Items {
			if m.Supply[it.Suffix] == nil {
				m.Supply[it.Suffix] = new(big.Int)
			}
			m.Supply[it.Suffix].Add(m.Supply[it.Suffix], it.Qty)
		}
	}
	for sfx := range m.Supply {
		if info, rest := m.tokenOfSuffix(sfx); info != nil && len(rest) > 0 {
			n := new(big.Int).SetBytes([]byte(rest)).Uint64()
			m.IssuedAt[sfx] = true
			if n > m.Issued[info.ID] {
				m.Issued[info.ID] = n
			}
		}
	}
	// the rebuilt model must now agree with the ledger; otherwise give up
	for i := range e.W.Shards {
		if len(m.CompareShard(e.W, i)) > 0 {
			return false
		}
	}
	return len(m.Conservation(e.W)) == 0
}

const maxResyncs = 6

// afterRecord is the per-call policy shared by the generated runs and the replays: the first clause of the checked
// properties is returned; foreign clauses lead to a resynchronisation (at most maxResyncs per history) or, when that is
// impossible, to the end of the history (stop).
func afterRecord(e *Engine, rec *CallRecord, props []string, resyncs *int) (mine []Clause, foreign []Clause, resynced bool, stop bool) {
	for _, cl := range rec.Clauses {
		if hasProp(cl, props) {
			mine = append(mine, cl)
		} else if cl.NoCut {
			// a listed finding of another property that the model itself describes: nothing to rebuild
			continue
		} else {
			foreign = append(foreign, cl)
		}
	}
	if rec.Lost {
		return mine, foreign, false, true
	}
	if len(foreign) > 0 {
		if *resyncs >= maxResyncs || !e.Resync(rec.MsgsBefore, foreignMessageFault(foreign)) {
			return mine, foreign, false, true
		}
		*resyncs++
		return mine, foreign, true, false
	}
	return mine, nil, false, false
}

// foreignMessageFault reports whether one of the clauses complains about what the call emitted.
func foreignMessageFault(cls []Clause) bool {
	for _, cl := range cls {
		if strings.Contains(cl.Sig, "message") || strings.Contains(cl.Sig, "emitted") || strings.Contains(cl.Sig, "attached-call") {
			return true
		}
	}
	return false
}
