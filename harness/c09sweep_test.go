package harness

// C09, enumerative part: the full product of {function} x {same-shard, cross-shard (sender side + delivery)} x
// {payable, non-payable, erroring oracle} x {call type} x {user, contract caller} x {destination user, contract} x
// {argument count min-1 .. min+2 around the "has attached call" threshold} x {token kinds for the multi transfer}.

import (
	"testing"
)

func c09Sweep(t *testing.T, st *Stats) {
	spec := MakeSpec(2, 1, true, 0, "0")
	F, S := []byte("FNG-a1b2c3"), []byte("SFT-0a0b0c")
	sys := refESDTSC
	known := LoadKnown("C09")
	senders := map[string][]byte{"user": spec.Users[0], "contract": spec.Contracts[0].Addr}
	dests := map[string]map[string][]byte{
		"same":  {"user": spec.Users[1], "contract": spec.Contracts[2].Addr},
		"cross": {"user": spec.Users[2], "contract": spec.Contracts[1].Addr},
	}
	idx := 0
	for _, fn := range []string{refBuiltInFunctionESDTTransfer, refBuiltInFunctionESDTNFTTransfer, refBuiltInFunctionMultiESDTNFTTransfer} {
		kinds := []string{"-"}
		if fn == refBuiltInFunctionMultiESDTNFTTransfer {
			kinds = []string{"fungible", "nft", "mixed"}
		}
		for _, kind := range kinds {
			for _, route := range []string{"same", "cross"} {
				for _, sndKind := range []string{"user", "contract"} {
					for _, dstKind := range []string{"user", "contract"} {
						for mode := 0; mode <= 2; mode++ {
							for ct := 0; ct <= 3; ct++ {
								if sndKind == "user" && ct != 0 {
									continue // N7
								}
								for extra := -1; extra <= 2; extra++ {
									idx++
									if !mine(idx) {
										continue
									}
									st.AddExtra("sweep_combinations", 1)
									snd, dst := senders[sndKind], dests[route][dstKind]
									e := NewEngine(spec)
									sh := func(a []byte) int { return int(e.M.shardOf(a)) }
									setup := []*Call{
										{Shard: sh(snd), Fn: refBuiltInFunctionESDTTransfer, Caller: sys, Rcv: snd, Args: hbs(F, []byte{50})},
										{Shard: sh(snd), Fn: refBuiltInFunctionSetESDTRole, Caller: sys, Rcv: snd, Args: hbs(S, []byte(refESDTRoleNFTCreate), []byte(refESDTRoleNFTAddQuantity))},
										{Shard: sh(snd), Fn: refBuiltInFunctionESDTNFTCreate, Caller: snd, Rcv: snd, Gas: ampleGas, Args: hbs(S, []byte{9}, []byte("n"), []byte{}, []byte("h"), []byte{}, []byte("u"))},
									}
									ok := true
									for _, c := range setup {
										if rec := e.Apply(callOp(c)); !rec.Res.OK() || len(rec.Clauses) > 0 {
											ok = false
										}
									}
									if !ok {
										failPlain(t, st, "C09", "history", Trace{Spec: spec, Ops: e.Ops}, "sweep/setup-failed", "the sweep's setup calls did not succeed")
									}
									e.Apply(Op{Kind: "payable", Shard: sh(dst), Addr: dst, Mode: mode})
									var args [][]byte
									switch fn {
									case refBuiltInFunctionESDTTransfer:
										args = [][]byte{F, {3}}
									case refBuiltInFunctionESDTNFTTransfer:
										args = [][]byte{S, {1}, {2}, dst}
									default:
										switch kind {
										case "fungible":
											args = [][]byte{dst, {1}, F, {}, {3}}
										case "nft":
											args = [][]byte{dst, {1}, S, {1}, {2}}
										default:
											args = [][]byte{dst, {2}, F, {0}, {3}, S, {1}, {2}}
										}
									}
									switch extra {
									case -1:
										args = args[:len(args)-1]
									case 1:
										args = append(args, []byte("accept"))
									case 2:
										args = append(args, []byte("accept"), []byte{7})
									}
									c := &Call{Shard: sh(snd), Fn: fn, Caller: cp(snd), Rcv: cp(snd), Args: hbs(args...), Gas: ampleGas, CallType: ct}
									if fn == refBuiltInFunctionESDTTransfer {
										c.Rcv = cp(dst)
									}
									label := sprintf("%s|%s|%s|%s->%s|oracle=%d|type=%d|args=min%+d", fn, kind, route, sndKind, dstKind, mode, ct, extra)
									check := func(rec *CallRecord) {
										st.Eval(1)
										for _, cl := range rec.Clauses {
											if hasProp(cl, []string{"C09"}) {
												if known[cl.Sig] {
													st.KnownHit(cl.Sig)
													continue
												}
												failPlain(t, st, "C09", "history", Trace{Spec: spec, Ops: e.Ops}, cl.Sig, sprintf("[sweep %s] %s", label, cl.Msg))
											}
										}
										if _, must := mustFailFor(rec, "C09"); must || rec.NonPayableDest {
											st.NTEnumerated(1)
											st.Label(sprintf("sweep/%s/%s", outcomeOf(rec), map[bool]string{true: "must-reject", false: "exempt-credit"}[must]))
										}
									}
									rec := e.Apply(callOp(c))
									check(rec)
									if idx%257 == 0 {
										st.Sample("sweep", map[string]interface{}{"combination": label, "outcome": outcomeOf(rec)})
									}
									for _, msg := range e.M.pendingMsgs() {
										check(e.Apply(callOp(e.DeliveryCall(msg)))) // destination side
										for _, refund := range e.M.pendingMsgs() {
											check(e.Apply(callOp(e.DeliveryCall(refund))))
										}
									}
								}
							}
						}
					}
				}
			}
		}
	}
	st.Exhaustive = append(st.Exhaustive, "product sweep: 3 transfer functions (multi: fungible/NFT/mixed) x same/cross shard (sender side, delivery, refund) x user/contract sender x user/contract destination x oracle {payable, non-payable, erroring} x call types allowed by N7 x argument counts min-1..min+2")
}
