package harness

// Deadlock watchdog.  A library call that never returns cannot be reported by the code that waits for it, and a time
// limit alone proves nothing (a busy machine is slow, not wrong).  What does prove a deadlock is the goroutine dump:
// when a section that normally takes microseconds has been running for VERIF_HANG_SECS (default 20 s) and, on two looks
// two seconds apart, EVERY goroutine that is inside library code is parked on a sync.Mutex / sync.RWMutex (the same
// goroutines both times), nothing that could release those locks is running - in the sequential engine there is no
// other goroutine at all.  Only then the watchdog records a violation (with the history or concurrent case that led
// there as the replay file) and ends the process; anything less stays a matter for the driver's time limit, which
// reports "inconclusive".

import (
	"fmt"
	"os"
	"regexp"
	"runtime"
	"sort"
	"strings"
	"sync"
	"sync/atomic"
	"time"
)

type hangSection struct {
	start   time.Time
	tags    []string // properties whose statements a hang here violates
	sig     string
	kind    string      // replay kind
	payload interface{} // replay payload; nil: ask hangTrace
	what    string
	call    *Call // set instead of sig/what for a built-in call (rendered only when needed)
}

var (
	hangCur     atomic.Pointer[hangSection]
	hangOnce    sync.Once
	hangStats   atomic.Pointer[Stats]
	hangTrace   atomic.Pointer[func() (string, interface{})] // set by the history runners: the trace so far
	hangReplay  atomic.Bool                                  // replay mode: print REPLAY-VIOLATION instead of recording
	hangNesting int32
)

// hangEnter marks the start of a section in which library code runs; sections nest (only the outermost counts).
func hangEnter(tags []string, sig, kind string, payload interface{}, what string) {
	if atomic.AddInt32(&hangNesting, 1) != 1 {
		return
	}
	hangOnce.Do(func() { go hangWatch() })
	hangCur.Store(&hangSection{start: time.Now(), tags: tags, sig: sig, kind: kind, payload: payload, what: what})
}

// hangEnterCall is hangEnter for one built-in function call.
func hangEnterCall(c *Call) {
	if atomic.AddInt32(&hangNesting, 1) != 1 {
		return
	}
	hangOnce.Do(func() { go hangWatch() })
	hangCur.Store(&hangSection{start: time.Now(), tags: callHangTags, call: c})
}

var callHangTags = []string{"C11", "C19"}

func hangLeave() {
	if atomic.AddInt32(&hangNesting, -1) == 0 {
		hangCur.Store(nil)
	}
}

var goroutineHeader = regexp.MustCompile(`^goroutine (\d+) \[([^\],]+)`)

const libPath = "github.com/ElrondNetwork/elrond-vm-common"

// lockedInLibrary inspects a full goroutine dump: ids of the goroutines inside library code that are parked on a mutex
// (sorted), whether some goroutine inside library code is NOT parked on a lock, and the library frames to show.
func lockedInLibrary(dump string) (ids []string, someoneRuns bool, frames []string) {
	for _, g := range strings.Split(dump, "\n\n") {
		lines := strings.Split(strings.TrimSpace(g), "\n")
		if len(lines) == 0 {
			continue
		}
		m := goroutineHeader.FindStringSubmatch(lines[0])
		if m == nil || !strings.Contains(g, libPath) {
			continue
		}
		switch m[2] {
		case "semacquire", "sync.Mutex.Lock", "sync.RWMutex.RLock", "sync.RWMutex.Lock":
			ids = append(ids, m[1])
			n := 0
			for i, l := range lines {
				if strings.Contains(l, libPath) && !strings.HasPrefix(l, "\t") && n < 4 {
					fr := strings.TrimSpace(l)
					if i+1 < len(lines) {
						fr += "  " + strings.TrimSpace(lines[i+1])
					}
					frames = append(frames, "goroutine "+m[1]+" ["+m[2]+"] "+fr)
					n++
				}
			}
		default:
			someoneRuns = true
		}
	}
	sort.Strings(ids)
	return
}

func hangWatch() {
	limit := time.Duration(EnvInt("VERIF_HANG_SECS", 20)) * time.Second
	buf := make([]byte, 4<<20)
	for {
		time.Sleep(time.Second)
		sec := hangCur.Load()
		if sec == nil || time.Since(sec.start) < limit {
			continue
		}
		ids1, runs1, _ := lockedInLibrary(string(buf[:runtime.Stack(buf, true)]))
		if len(ids1) == 0 || runs1 {
			continue
		}
		time.Sleep(2 * time.Second)
		if hangCur.Load() != sec {
			continue
		}
		ids2, runs2, frames := lockedInLibrary(string(buf[:runtime.Stack(buf, true)]))
		if runs2 || strings.Join(ids1, ",") != strings.Join(ids2, ",") {
			continue
		}
		hangReport(sec, frames)
	}
}

func hangReport(sec *hangSection, frames []string) {
	if sec.call != nil {
		sec.sig, sec.what = sec.call.Fn+"/never-returns", sec.call.String()
	}
	msg := fmt.Sprintf("%s has not returned after %v and every goroutine inside library code is parked on a lock that nothing running can release (deadlock):\n  %s",
		sec.what, time.Since(sec.start).Round(time.Second), strings.Join(frames, "\n  "))
	kind, payload := sec.kind, sec.payload
	if payload == nil {
		if f := hangTrace.Load(); f != nil {
			kind, payload = (*f)()
		}
	}
	if payload == nil {
		kind, payload = "hang-note", map[string]string{"what": sec.what}
	}
	prop := os.Getenv("VERIF_PROP")
	if hangReplay.Load() {
		fmt.Printf("REPLAY-VIOLATION property=%s signature=%s %s\n", prop, sec.sig, msg)
		os.Exit(1)
	}
	st := hangStats.Load()
	mine := prop == ""
	for _, t := range sec.tags {
		if t == prop {
			mine = true
		}
	}
	if st == nil {
		fmt.Printf("HANG %s %s\n", sec.sig, msg)
		os.Exit(1)
	}
	if !mine {
		// another property's statement is broken here (its own check reports it); this worker cannot go on
		st.AddExtra("ended_by_foreign_deadlock", 1)
		st.Label("foreign/" + sec.tags[0] + "/" + sec.sig)
		st.Flush()
		fmt.Printf("worker ended by a deadlock that belongs to %v: %s\n", sec.tags, sec.sig)
		os.Exit(0)
	}
	if prop == "" {
		prop = sec.tags[0]
	}
	path := WriteReplay(prop, kind, payload, sec.sig, msg)
	st.Violate(Violation{Property: prop, Signature: sec.sig, Message: msg, Replay: path})
	st.Flush()
	fmt.Printf("%s %s: %s\n", prop, sec.sig, msg)
	os.Exit(1)
}
