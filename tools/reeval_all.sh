#!/bin/bash
# Re-runs every kept seeded change against its own property's quick check (after the checks were changed) and lists misses.
# usage: tools/reeval_all.sh [k n]   - only the seeds whose index is k modulo n (to run n of these side by side)
cd "$(dirname "$(readlink -f "$0")")/.."
K=${1:-0}; N=${2:-1}; i=0
for d in seeded/C*; do
  i=$((i+1)); [ $((i % N)) -eq $K ] || continue
  p=$(basename $d | cut -d- -f1)
  r=$(tools/evalseed.sh $d $p | tail -1)
  case "$r" in *"rc=1"*) echo "caught  $(basename $d)";; *) echo "MISSED  $(basename $d)   $r";; esac
done
