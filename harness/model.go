package harness

// Reference model, part 1: abstract state and helpers.  The model mirrors the ledger at the level the properties
// speak about (balances per storage-level key, frozen/paused flags, role lists, counters, metadata, account fields),
// is fed only by operations it understands, and never re-implements validation: per call it yields reasons the call
// MUST fail (taken from the property statements), whether it MUST succeed, and - for a success - the exact effects.

import (
	"bytes"
	"math/big"
	"sort"

	vmcommon "github.com/ElrondNetwork/elrond-vm-common"
)

const (
	pfxESDT  = "ELRONDesdt"
	pfxRole  = "ELRONDroleesdt"
	pfxNonce = "ELRONDnonce"
)

type Entry struct {
	Value  *big.Int
	Frozen bool
	Meta   *RefMeta
}

func (e *Entry) clone() *Entry {
	return &Entry{Value: new(big.Int).Set(e.Value), Frozen: e.Frozen, Meta: e.Meta.Clone()}
}

type MAccount struct {
	Entries  map[string]*Entry
	Roles    map[string][]string
	Counter  map[string]uint64
	KV       map[string][]byte
	Owner    []byte
	UserName []byte
	Reward   *big.Int
	Balance  *big.Int
}

func newMAccount() *MAccount {
	return &MAccount{Entries: map[string]*Entry{}, Roles: map[string][]string{}, Counter: map[string]uint64{}, KV: map[string][]byte{}, Reward: new(big.Int), Balance: new(big.Int)}
}

func (a *MAccount) clone() *MAccount {
	c := newMAccount()
	for k, e := range a.Entries {
		c.Entries[k] = e.clone()
	}
	for k, r := range a.Roles {
		c.Roles[k] = append([]string{}, r...)
	}
	for k, v := range a.Counter {
		c.Counter[k] = v
	}
	for k, v := range a.KV {
		c.KV[k] = cp(v)
	}
	c.Owner, c.UserName = cp(a.Owner), cp(a.UserName)
	c.Reward.Set(a.Reward)
	c.Balance.Set(a.Balance)
	return c
}

type MShard struct {
	Accounts  map[string]*MAccount
	PauseFlag map[string]bool // token -> paused (presence = the flag entry exists on the system account)
	Gas       map[string]uint64
	Payable   map[string]int
	Epoch     uint32
}

type Item struct {
	Token  []byte
	Nonce  uint64
	Suffix string
	Qty    *big.Int
	Meta   *RefMeta
}

type Msg struct {
	ID        int
	Kind      string // transfer | handover | account
	Fn        string
	Caller    []byte // caller of the delivered execution
	Rcv       []byte
	Args      [][]byte
	CallType  int
	Gas       uint64
	GasLocked uint64
	RetErr    bool
	Items     []Item
	Token     []byte // handover
	Counter   uint64 // handover
	Sender    []byte // original sender of a transfer (refund target)
	Refund    bool
	Done      bool
	Delivered int
}

type TokenInfo struct {
	ID   string
	Kind string // F | SFT | NFT
}

type Model struct {
	NShards  int
	Shards   []*MShard
	Tokens   map[string]*TokenInfo
	Supply   map[string]*big.Int // per storage-level suffix
	Issued   map[string]uint64   // token -> highest nonce ever issued
	IssuedAt map[string]bool     // token|nonce issued at least once
	Msgs     []*Msg
	DNS      map[string]bool
	NameChg  bool
	// Lookup, set by the engine, reads a raw storage value of the real ledger (pre-state).  The model uses it only for
	// what the statements leave open: the bytes of an entry besides amount and metadata (Type, Properties, Reserved)
	// travel in an NFT payload and so contribute to its priced length.
	Lookup func(shard int, addr []byte, key string) []byte
}

// storedExtras returns Type, Properties and Reserved of the entry as actually stored (zero values when absent).
func (m *Model) storedExtras(shard int, addr []byte, suffix string, hasMeta bool) (uint32, []byte, []byte) {
	typ := uint32(0)
	if hasMeta {
		typ = uint32(vmcommon.NonFungible)
	}
	if m.Lookup == nil {
		return typ, nil, nil
	}
	raw := m.Lookup(shard, addr, pfxESDT+suffix)
	if len(raw) == 0 {
		return typ, nil, nil
	}
	t, err := RefDecodeToken(raw)
	if err != nil {
		return typ, nil, nil
	}
	return t.Type, t.Properties, t.Reserved
}

func NewModel(n int) *Model {
	m := &Model{NShards: n, Tokens: map[string]*TokenInfo{}, Supply: map[string]*big.Int{}, Issued: map[string]uint64{}, IssuedAt: map[string]bool{}, DNS: map[string]bool{}}
	for i := 0; i < n; i++ {
		m.Shards = append(m.Shards, &MShard{Accounts: map[string]*MAccount{}, PauseFlag: map[string]bool{}, Gas: map[string]uint64{}, Payable: map[string]int{}})
	}
	return m
}

func (m *Model) Clone() *Model {
	c := NewModel(m.NShards)
	for i, s := range m.Shards {
		cs := c.Shards[i]
		for k, a := range s.Accounts {
			cs.Accounts[k] = a.clone()
		}
		for k, v := range s.PauseFlag {
			cs.PauseFlag[k] = v
		}
		for k, v := range s.Gas {
			cs.Gas[k] = v
		}
		for k, v := range s.Payable {
			cs.Payable[k] = v
		}
		cs.Epoch = s.Epoch
	}
	for k, v := range m.Tokens {
		c.Tokens[k] = v
	}
	for k, v := range m.Supply {
		c.Supply[k] = new(big.Int).Set(v)
	}
	for k, v := range m.Issued {
		c.Issued[k] = v
	}
	for k, v := range m.IssuedAt {
		c.IssuedAt[k] = v
	}
	for _, msg := range m.Msgs {
		cm := *msg
		c.Msgs = append(c.Msgs, &cm)
	}
	for k, v := range m.DNS {
		c.DNS[k] = v
	}
	c.NameChg = m.NameChg
	return c
}

func (m *Model) shardOf(addr []byte) uint32 { return computeShard(addr, uint32(m.NShards)) }

func (m *Model) local(addr []byte, shard int) bool { return m.shardOf(addr) == uint32(shard) }

func (m *Model) acc(shard int, addr []byte) *MAccount {
	s := m.Shards[shard]
	a, ok := s.Accounts[string(addr)]
	if !ok {
		a = newMAccount()
		s.Accounts[string(addr)] = a
	}
	return a
}

var zeroEntry = &Entry{Value: new(big.Int)}

func (a *MAccount) entry(suffix string) *Entry {
	if e, ok := a.Entries[suffix]; ok {
		return e
	}
	return zeroEntry
}

func (a *MAccount) bal(suffix string) *big.Int { return a.entry(suffix).Value }

// setEntry stores or removes (value 0 and not frozen = absent).
func (a *MAccount) setEntry(suffix string, e *Entry) {
	if e.Value.Sign() == 0 && !e.Frozen {
		delete(a.Entries, suffix)
		return
	}
	a.Entries[suffix] = e
}

func (a *MAccount) add(suffix string, d *big.Int, meta *RefMeta) {
	e := a.entry(suffix).clone()
	e.Value.Add(e.Value, d)
	if meta != nil {
		e.Meta = meta.Clone()
	}
	a.setEntry(suffix, e)
}

func (a *MAccount) hasRole(token []byte, role string) bool {
	for _, r := range a.Roles[string(token)] {
		if r == role {
			return true
		}
	}
	return false
}

func (m *Model) addSupply(suffix string, d *big.Int) {
	s, ok := m.Supply[suffix]
	if !ok {
		s = new(big.Int)
		m.Supply[suffix] = s
	}
	s.Add(s, d)
}

func low64(b []byte) uint64 {
	if len(b) > 8 {
		b = b[len(b)-8:]
	}
	var v uint64
	for _, x := range b {
		v = v<<8 | uint64(x)
	}
	return v
}

func beNonce(n uint64) []byte { return new(big.Int).SetUint64(n).Bytes() }

func suffixOf(token []byte, nonce uint64) string { return string(token) + string(beNonce(nonce)) }

func bigOf(b []byte) *big.Int { return new(big.Int).SetBytes(b) }

// tokenOfSuffix finds the registered token a storage suffix belongs to (registered identifiers all have the same
// length and none is a prefix of another, so the match is unambiguous).
func (m *Model) tokenOfSuffix(suffix string) (*TokenInfo, string) {
	for id, t := range m.Tokens {
		if len(suffix) >= len(id) && suffix[:len(id)] == id {
			return t, suffix[len(id):]
		}
	}
	return nil, ""
}

func (m *Model) sortedTokens() []string {
	out := make([]string, 0, len(m.Tokens))
	for k := range m.Tokens {
		out = append(out, k)
	}
	sort.Strings(out)
	return out
}

func isESDTSC(a []byte) bool { return bytes.Equal(a, refESDTSC) }

// pendingMsgs lists undelivered messages in id order.
func (m *Model) pendingMsgs() []*Msg {
	var out []*Msg
	for _, x := range m.Msgs {
		if !x.Done {
			out = append(out, x)
		}
	}
	return out
}

func (m *Model) msg(id int) *Msg {
	if id <= 0 || id > len(m.Msgs) {
		return nil
	}
	return m.Msgs[id-1]
}

func (m *Model) newMsg(x *Msg) *Msg {
	x.ID = len(m.Msgs) + 1
	m.Msgs = append(m.Msgs, x)
	return x
}
