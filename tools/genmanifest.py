#!/usr/bin/env python3
"""Regenerates /verif/MANIFEST.json from checkconf.py (single source of truth for what is claimed)."""
import json, os, sys
ROOT = os.path.dirname(os.path.dirname(os.path.abspath(__file__)))
sys.path.insert(0, ROOT)
from checkconf import PROPS, NOT_APPLICABLE, ASSUMPTIONS

ids = [json.loads(l)["id"] for l in open(os.path.join(ROOT, "properties.jsonl")) if l.strip()]
checks = []
for pid in ids:
    if pid not in PROPS:
        continue
    c = PROPS[pid]
    checks.append({
        "property_id": pid,
        "quick_cmd": "./check %s --tier quick" % pid,
        "thorough_cmd": "./check %s --tier thorough" % pid,
        "evidence_file": "/verif/evidence/%s.json" % pid,
        "replay_cmd_template": "./check %s --replay {path}" % pid,
        "engine": c.get("engine", "harness"),
        "level_claimed": {"category": c["level"], "text": c["level_text"], "design_ref": c.get("design_ref", "DESIGN.md section 5, " + pid)},
        "level_note": c["level_note"],
        "technique": c["technique"],
    })
na = [{"property_id": pid, "reason": NOT_APPLICABLE.get(pid, "check not built yet (work in progress; see DESIGN.md section 12)")}
      for pid in ids if pid not in PROPS]
doc = {
    "version": 1,
    "setup_cmd": "cd /verif/harness && GOFLAGS=-mod=mod GOPROXY=off GOSUMDB=off GOTOOLCHAIN=local go test -c -vet=off -o /dev/null . && GOFLAGS=-mod=mod GOPROXY=off GOSUMDB=off GOTOOLCHAIN=local go test -c -race -vet=off -o /dev/null .",
    "hooks": {
        "guard": "verif",
        "enable": "none needed: every check drives /repo black-box through its exported API (harness module with replace => /repo); no hook commits exist",
        "baseline_off_cmd": "cd /repo && go test -vet=off -count=1 ./...",
        "source_commits": [],
        "add_only": True,
    },
    "engines": [
        {"name": "harness", "path": "/verif/harness", "serves_properties": [c["property_id"] for c in checks],
         "kind_free_text": "Go test binary (pgregory.net/rapid v1.3.0 generators + plain enumerations + porcupine as linearizability oracle) built against /repo on every run by ./check; multi-shard world simulator with reference model for the ledger properties"},
    ],
    "checks": checks,
    "notes": "All checks: ./check <id> [--tier quick|thorough] [--replay file]; VERIF_SEED selects the derived per-process rapid seeds; exit 2 is used for infrastructure failures only. Known findings: /verif/KNOWN_FINDINGS.txt.",
    "not_applicable": na,
}
json.dump(doc, open(os.path.join(ROOT, "MANIFEST.json"), "w"), indent=1)
print("claimed:", [c["property_id"] for c in checks], "not_applicable:", [n["property_id"] for n in na])
