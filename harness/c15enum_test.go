package harness

// C15, enumerative part: EVERY sequence of abstract operations up to a bounded depth over a tiny universe
// (2 shards, users A and B on shard 0, C on shard 1, one fungible and one semi-fungible token, amounts {1, all}).

import (
	"math/big"
	"testing"
)

type absOp struct {
	name string
	mk   func(e *Engine) *Call // nil: not applicable in this state (the sequence continues with the next operation)
}

func c15Universe() (WorldSpec, []absOp) {
	spec := MakeSpec(2, 1, true, 0, "0")
	A, B, C := []byte(spec.Users[0]), []byte(spec.Users[1]), []byte(spec.Users[2])
	F, S := []byte("FNG-a1b2c3"), []byte("SFT-0a0b0c")
	sys := refESDTSC
	sh := func(a []byte) int { return int(computeShard(a, 2)) }
	call := func(shard int, fn string, caller, rcv []byte, args ...[]byte) *Call {
		return &Call{Shard: shard, Fn: fn, Caller: cp(caller), Rcv: cp(rcv), Args: hbs(args...), Gas: ampleGas}
	}
	system := func(fn string, rcv []byte, args ...[]byte) func(*Engine) *Call {
		return func(*Engine) *Call { return call(sh(rcv), fn, sys, rcv, args...) }
	}
	bal := func(e *Engine, a []byte, sfx string) []byte {
		v := e.M.acc(sh(a), a).bal(sfx)
		if v.Sign() == 0 {
			return []byte{}
		}
		return new(big.Int).Set(v).Bytes()
	}
	n1 := suffixOf(S, 1)
	self := func(fn string, who []byte, args func(e *Engine) [][]byte) func(*Engine) *Call {
		return func(e *Engine) *Call { return call(sh(who), fn, who, who, args(e)...) }
	}
	fixed := func(a ...[]byte) func(*Engine) [][]byte { return func(*Engine) [][]byte { return a } }
	transfer := func(from, to []byte, all bool) func(*Engine) *Call {
		return func(e *Engine) *Call {
			amt := []byte{1}
			if all {
				amt = bal(e, from, string(F))
			}
			return call(sh(from), refBuiltInFunctionESDTTransfer, from, to, F, amt)
		}
	}
	nftTransfer := func(from, to []byte, all bool) func(*Engine) *Call {
		return func(e *Engine) *Call {
			amt := []byte{1}
			if all {
				amt = bal(e, from, n1)
			}
			return call(sh(from), refBuiltInFunctionESDTNFTTransfer, from, from, S, []byte{1}, amt, to)
		}
	}
	create := func(who []byte, qty byte) func(*Engine) *Call {
		return self(refBuiltInFunctionESDTNFTCreate, who, fixed(S, []byte{qty}, []byte("n"), []byte{}, []byte("h"), []byte{}, []byte("u")))
	}
	deliver := func(last bool) func(*Engine) *Call {
		return func(e *Engine) *Call {
			p := e.M.pendingMsgs()
			if len(p) == 0 {
				return nil
			}
			m := p[0]
			if last {
				m = p[len(p)-1]
			}
			return e.DeliveryCall(m)
		}
	}
	ops := []absOp{
		{"issue F->A 100", system(refBuiltInFunctionESDTTransfer, A, F, []byte{100})},
		{"issue F->C 1", system(refBuiltInFunctionESDTTransfer, C, F, []byte{1})},
		{"roles A F", func(e *Engine) *Call {
			if len(e.M.acc(0, A).Roles[string(F)]) > 0 {
				return nil // N6: never sets a role the account already holds
			}
			return call(0, refBuiltInFunctionSetESDTRole, sys, A, F, []byte(refESDTRoleLocalMint), []byte(refESDTRoleLocalBurn))
		}},
		{"roles A SFT", func(e *Engine) *Call {
			if e.M.acc(0, A).hasRole(S, refESDTRoleNFTCreate) || e.M.Issued[string(S)] > 0 || len(e.M.acc(0, A).Roles[string(S)]) > 0 {
				return nil // N6: never set twice, create role only once
			}
			for _, m := range e.M.Msgs {
				if m.Kind == "handover" {
					return nil
				}
			}
			return call(0, refBuiltInFunctionSetESDTRole, sys, A, S, []byte(refESDTRoleNFTCreate), []byte(refESDTRoleNFTAddQuantity), []byte(refESDTRoleNFTBurn), []byte(refESDTRoleNFTAddURI), []byte(refESDTRoleNFTUpdateAttributes))
		}},
		{"mint A 1", self(refBuiltInFunctionESDTLocalMint, A, fixed(F, []byte{1}))},
		{"localburn A all", self(refBuiltInFunctionESDTLocalBurn, A, func(e *Engine) [][]byte { return [][]byte{F, bal(e, A, string(F))} })},
		{"localburn A 1", self(refBuiltInFunctionESDTLocalBurn, A, fixed(F, []byte{1}))},
		{"burn A all", func(e *Engine) *Call {
			return call(0, refBuiltInFunctionESDTBurn, A, sys, F, bal(e, A, string(F)))
		}},
		{"transfer A->B 1", transfer(A, B, false)},
		{"transfer A->B all", transfer(A, B, true)},
		{"transfer A->C all", transfer(A, C, true)},
		{"transfer B->A all", transfer(B, A, true)},
		{"transfer C->A all", transfer(C, A, true)},
		{"create A 2", create(A, 2)},
		{"create A 1", create(A, 1)},
		{"create B 1", create(B, 1)},
		{"create C 1", create(C, 1)},
		{"addq A n1 1", self(refBuiltInFunctionESDTNFTAddQuantity, A, fixed(S, []byte{1}, []byte{1}))},
		{"nftburn A n1 all", self(refBuiltInFunctionESDTNFTBurn, A, func(e *Engine) [][]byte { return [][]byte{S, {1}, bal(e, A, n1)} })},
		{"nftburn A n1 1", self(refBuiltInFunctionESDTNFTBurn, A, fixed(S, []byte{1}, []byte{1}))},
		{"adduri A n1", self(refBuiltInFunctionESDTNFTAddURI, A, fixed(S, []byte{1}, []byte("u2")))},
		{"update A n1", self(refBuiltInFunctionESDTNFTUpdateAttributes, A, fixed(S, []byte{1}, []byte("a2")))},
		{"nft A->B 1", nftTransfer(A, B, false)},
		{"nft A->B all", nftTransfer(A, B, true)},
		{"nft A->C all", nftTransfer(A, C, true)},
		{"nft B->A all", nftTransfer(B, A, true)},
		{"multi A->B F1+n1", self(refBuiltInFunctionMultiESDTNFTTransfer, A, fixed(B, []byte{2}, F, []byte{0}, []byte{1}, S, []byte{1}, []byte{1}))},
		{"multi A->C Fall", self(refBuiltInFunctionMultiESDTNFTTransfer, A, func(e *Engine) [][]byte { return [][]byte{C, {1}, F, {}, bal(e, A, string(F))} })},
		{"multi A->B F1 F1", self(refBuiltInFunctionMultiESDTNFTTransfer, A, fixed(B, []byte{2}, F, []byte{0}, []byte{1}, F, []byte{0}, []byte{1}))},
		{"freeze A F", system(refBuiltInFunctionESDTFreeze, A, F)},
		{"unfreeze A F", system(refBuiltInFunctionESDTUnFreeze, A, F)},
		{"wipe A F", system(refBuiltInFunctionESDTWipe, A, F)},
		{"freeze B F", system(refBuiltInFunctionESDTFreeze, B, F)},
		{"pause F shard0", func(*Engine) *Call {
			return call(0, refBuiltInFunctionESDTPause, sys, refSystemAccount, F)
		}},
		{"unpause F shard0", func(*Engine) *Call {
			return call(0, refBuiltInFunctionESDTUnPause, sys, refSystemAccount, F)
		}},
		{"pause SFT shard0", func(*Engine) *Call {
			return call(0, refBuiltInFunctionESDTPause, sys, refSystemAccount, S)
		}},
		{"handover A->B", func(e *Engine) *Call {
			if !e.M.acc(0, A).hasRole(S, refESDTRoleNFTCreate) {
				return nil // N6: the system contract addresses the hand-over to the current holder
			}
			return call(0, refBuiltInFunctionESDTNFTCreateRoleTransfer, sys, A, S, B)
		}},
		{"handover A->C", func(e *Engine) *Call {
			if !e.M.acc(0, A).hasRole(S, refESDTRoleNFTCreate) {
				return nil
			}
			return call(0, refBuiltInFunctionESDTNFTCreateRoleTransfer, sys, A, S, C)
		}},
		{"unsetrole A F burn", func(e *Engine) *Call {
			if !e.M.acc(0, A).hasRole(F, refESDTRoleLocalBurn) {
				return nil
			}
			return call(0, refBuiltInFunctionUnSetESDTRole, sys, A, F, []byte(refESDTRoleLocalBurn))
		}},
		{"deliver first", deliver(false)},
		{"deliver last", deliver(true)},
	}
	return spec, ops
}

// c15Enumerate runs every sequence of length `depth` (shorter ones are its prefixes) and reports the first C15 clause.
func c15Enumerate(t *testing.T, st *Stats, depth int) {
	spec, ops := c15Universe()
	n := len(ops)
	total := 1
	for i := 0; i < depth; i++ {
		total *= n
	}
	known := LoadKnown("C15")
	for idx := 0; idx < total; idx++ {
		if !mine(idx) {
			continue
		}
		e := NewEngine(spec)
		x := idx
		var names []string
		changed := 0
		for d := 0; d < depth; d++ {
			op := ops[x%n]
			x /= n
			c := op.mk(e)
			if c == nil {
				continue
			}
			names = append(names, op.name)
			rec := e.Apply(callOp(c))
			st.Eval(1)
			if rec.Res.OK() && len(rec.Res.Diff) > 0 {
				changed++
			}
			stop := rec.Lost
			for _, cl := range rec.Clauses {
				if hasProp(cl, []string{"C15"}) {
					if known[cl.Sig] {
						st.KnownHit(cl.Sig)
					} else {
						failPlain(t, st, "C15", "history", Trace{Spec: spec, Ops: e.Ops}, cl.Sig, sprintf("after the sequence %v: %s", names, cl.Msg))
					}
				}
				stop = true
			}
			if stop {
				st.AddExtra("enumerated_sequences_cut", 1)
				break
			}
		}
		st.AddExtra("enumerated_sequences", 1)
		if changed > 0 {
			st.NTEnumerated(1)
		}
		if idx%(total/7+1) == 3 {
			st.Sample("enumerated-sequence", names)
		}
	}
	st.Exhaustive = append(st.Exhaustive, sprintf("every sequence of %d abstract operations (alphabet of %d) over the tiny universe {2 shards; users A,B on shard 0 and C on shard 1; tokens FNG-a1b2c3 and SFT-0a0b0c; amounts 1/all}", depth, n))
}
