package harness

import (
	"fmt"
	"os"
	"testing"

	"pgregory.net/rapid"
)

// procShard tells an enumeration which slice of the domain this process owns.
func procShard() (idx, n int) {
	return EnvInt("VERIF_PROC", 0), EnvInt("VERIF_NPROC", 1)
}

// mine reports whether enumerated item i belongs to this process.
func mine(i int) bool {
	idx, n := procShard()
	return i%n == idx
}

// failRapid records a counter-example found inside a rapid property and fails the case (so that rapid shrinks it).
func failRapid(rt *rapid.T, st *Stats, prop, kind string, payload interface{}, sig, msg string) {
	path := WriteReplay(prop, kind, payload, sig, msg)
	st.Violate(Violation{Property: prop, Signature: sig, Message: msg, Replay: path})
	rt.Fatalf("%s %s: %s", prop, sig, msg)
}

// failPlain records a counter-example found by an enumeration or a replay.
func failPlain(t *testing.T, st *Stats, prop, kind string, payload interface{}, sig, msg string) {
	path := WriteReplay(prop, kind, payload, sig, msg)
	st.Violate(Violation{Property: prop, Signature: sig, Message: msg, Replay: path})
	st.Flush()
	t.Fatalf("%s %s: %s", prop, sig, msg)
}

// finish flushes the stats when the test function returns, whatever the outcome.
func finish(t *testing.T, st *Stats) {
	if r := recover(); r != nil {
		st.Flush()
		panic(r)
	}
	st.Flush()
	if st.HasViolation() && !t.Failed() {
		t.Fail()
	}
}

// noPanic runs f and converts a panic into an error string.
func noPanic(f func()) (p interface{}) {
	defer func() { p = recover() }()
	f()
	return nil
}

func init() {
	// rapid replays testdata/rapid/**.fail before generating; nothing implicit may influence a run.
	_ = os.RemoveAll("testdata/rapid")
}

func sprintf(f string, a ...interface{}) string { return fmt.Sprintf(f, a...) }
