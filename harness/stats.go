package harness

import (
	"encoding/hex"
	"encoding/json"
	"fmt"
	"hash/fnv"
	"os"
	"sort"
	"strconv"
	"sync"
	"time"
)

// Violation is one counter-example found by a monitor.
type Violation struct {
	Property  string `json:"property"`
	Signature string `json:"signature"` // stable class of the failure (function/side/shape/clause)
	Message   string `json:"message"`
	Replay    string `json:"replay"`
}

// Stats is what one process reports to the driver; the driver merges them into evidence/<id>.json.
type Stats struct {
	mu          sync.Mutex
	Property    string              `json:"property"`
	Tier        string              `json:"tier"`
	Proc        int                 `json:"proc"`
	RapidSeed   uint64              `json:"rapid_seed"`
	Evaluations int64               `json:"evaluations"`
	NonTrivial  map[string]struct{} `json:"-"`
	NTHashes    []string            `json:"nontrivial_hashes"`
	NTEnum      int64               `json:"nontrivial_enumerated"` // distinct by construction (enumerated, sharded by process)
	Labels      map[string]int64    `json:"labels"`
	Samples     []interface{}       `json:"samples"`
	Violations  []Violation         `json:"violations"`
	Known       map[string]int64    `json:"known_hits"`
	Extra       map[string]int64    `json:"extra"`
	Exhaustive  []string            `json:"exhaustive_subdomains"`
	Notes       []string            `json:"notes"`
	WallS       float64             `json:"wall_s"`
	start       time.Time
	maxSamples  int
	sampleKinds map[string]int
}

func NewStats(prop string) *Stats {
	proc, _ := strconv.Atoi(os.Getenv("VERIF_PROC"))
	st := &Stats{
		Property: prop, Tier: Tier(), Proc: proc, RapidSeed: uint64(EnvInt("VERIF_RAPID_SEED", 0)),
		NonTrivial: map[string]struct{}{}, Labels: map[string]int64{}, Known: map[string]int64{},
		Extra: map[string]int64{}, start: time.Now(), maxSamples: 6, sampleKinds: map[string]int{},
	}
	hangStats.Store(st) // the deadlock watchdog records into the statistics of the test that is running
	return st
}

func Tier() string {
	t := os.Getenv("VERIF_TIER")
	if t == "" {
		return "quick"
	}
	return t
}

func Thorough() bool { return Tier() == "thorough" }

// EnvInt reads an integer knob supplied by the driver.
func EnvInt(name string, def int) int {
	if v := os.Getenv(name); v != "" {
		if n, err := strconv.Atoi(v); err == nil {
			return n
		}
	}
	return def
}

func (s *Stats) Eval(n int64) { s.mu.Lock(); s.Evaluations += n; s.mu.Unlock() }

func (s *Stats) Label(l string) { s.mu.Lock(); s.Labels[l]++; s.mu.Unlock() }

func (s *Stats) LabelN(l string, n int64) { s.mu.Lock(); s.Labels[l] += n; s.mu.Unlock() }

func (s *Stats) AddExtra(k string, n int64) { s.mu.Lock(); s.Extra[k] += n; s.mu.Unlock() }

// NT records one non-trivial case; key identifies it for de-duplication.
func (s *Stats) NT(key string) {
	h := fnv.New64a()
	h.Write([]byte(key))
	k := hex.EncodeToString(h.Sum(nil))
	s.mu.Lock()
	s.NonTrivial[k] = struct{}{}
	s.mu.Unlock()
}

// NTEnumerated counts non-trivial cases of an enumerated domain: distinct by construction, and enumerations are
// sharded between processes, so the driver may add these up.
func (s *Stats) NTEnumerated(n int64) { s.mu.Lock(); s.NTEnum += n; s.mu.Unlock() }

// Sample keeps up to two rendered cases per kind, maxSamples overall.
func (s *Stats) Sample(kind string, v interface{}) {
	s.mu.Lock()
	defer s.mu.Unlock()
	if len(s.Samples) >= s.maxSamples || s.sampleKinds[kind] >= 2 {
		return
	}
	s.sampleKinds[kind]++
	s.Samples = append(s.Samples, map[string]interface{}{"kind": kind, "case": v})
}

func (s *Stats) Violate(v Violation) {
	s.mu.Lock()
	defer s.mu.Unlock()
	// rapid re-executes the minimal failing case last, and every failing execution overwrites the same replay
	// file, so the latest report for a replay path is the one that matches the file's contents.
	for i, o := range s.Violations {
		if o.Replay == v.Replay {
			s.Violations[i] = v
			return
		}
	}
	s.Violations = append(s.Violations, v)
}

func (s *Stats) HasViolation() bool {
	s.mu.Lock()
	defer s.mu.Unlock()
	return len(s.Violations) > 0
}

// Flush writes the per-process stats file named by VERIF_STATS (no-op when unset).
func (s *Stats) Flush() {
	s.mu.Lock()
	defer s.mu.Unlock()
	s.WallS = time.Since(s.start).Seconds()
	s.NTHashes = s.NTHashes[:0]
	for k := range s.NonTrivial {
		s.NTHashes = append(s.NTHashes, k)
	}
	sort.Strings(s.NTHashes)
	path := os.Getenv("VERIF_STATS")
	if path == "" {
		return
	}
	b, err := json.Marshal(s)
	if err != nil {
		fmt.Fprintln(os.Stderr, "stats marshal:", err)
		return
	}
	_ = os.WriteFile(path, b, 0o644)
}

// ReplayDir is where counter-examples are written.
func ReplayDir() string {
	d := os.Getenv("VERIF_REPLAY_DIR")
	if d == "" {
		d = "/verif/replays"
	}
	_ = os.MkdirAll(d, 0o755)
	return d
}

// ReplayPath gives this process's replay file for a property (overwritten by every failing execution, so that
// after shrinking the minimal case is what is left).
func ReplayPath(prop string) string {
	return fmt.Sprintf("%s/%s.p%s.json", ReplayDir(), prop, os.Getenv("VERIF_PROC"))
}

// WriteReplay stores a counter-example.
func WriteReplay(prop string, kind string, payload interface{}, clause string, detail string) string {
	path := ReplayPath(prop)
	doc := map[string]interface{}{"property": prop, "kind": kind, "clause": clause, "detail": detail, "case": payload}
	b, _ := json.MarshalIndent(doc, "", " ")
	_ = os.WriteFile(path, b, 0o644)
	return path
}

// splitmix64 derives independent seeds.
func splitmix64(x uint64) uint64 {
	x += 0x9e3779b97f4a7c15
	z := x
	z = (z ^ (z >> 30)) * 0xbf58476d1ce4e5b9
	z = (z ^ (z >> 27)) * 0x94d049bb133111eb
	return z ^ (z >> 31)
}

// Seed returns the VERIF_SEED-derived seed for this process and a stream name.
func Seed(stream string) uint64 {
	base := uint64(EnvInt("VERIF_SEED", 1))
	proc := uint64(EnvInt("VERIF_PROC", 0))
	h := fnv.New64a()
	h.Write([]byte(stream))
	return splitmix64(splitmix64(base)^splitmix64(proc+0x1234)^h.Sum64()) | 1
}

// hx renders bytes for samples and replay files.
func hx(b []byte) string { return hex.EncodeToString(b) }

func unhx(s string) []byte {
	b, err := hex.DecodeString(s)
	if err != nil {
		panic("bad hex in replay: " + s)
	}
	return b
}

// LoadKnown reads the committed known-findings file (never written at run time) and returns the signatures listed
// as "known:" for a property.  "fixed:" lines suppress nothing and are ignored here.
func LoadKnown(prop string) map[string]bool {
	out := map[string]bool{}
	path := os.Getenv("VERIF_KNOWN")
	if path == "" {
		path = "/verif/KNOWN_FINDINGS.txt"
	}
	b, err := os.ReadFile(path)
	if err != nil {
		return out
	}
	for _, line := range splitLines(string(b)) {
		f := fields(line)
		if len(f) < 3 || f[0] != "known:" {
			continue
		}
		if f[1] == "property="+prop && len(f[2]) > 4 && f[2][:4] == "key=" {
			out[f[2][4:]] = true
		}
	}
	return out
}

func splitLines(s string) []string {
	var out []string
	cur := ""
	for _, r := range s {
		if r == '\n' {
			out = append(out, cur)
			cur = ""
		} else {
			cur += string(r)
		}
	}
	return append(out, cur)
}

func fields(s string) []string {
	var out []string
	cur := ""
	for _, r := range s {
		if r == ' ' || r == '\t' {
			if cur != "" {
				out = append(out, cur)
				cur = ""
			}
		} else {
			cur += string(r)
		}
	}
	if cur != "" {
		out = append(out, cur)
	}
	return out
}

// KnownHit records that a listed known finding was met (reported by the driver as KNOWN-FINDING, exit 0).
func (s *Stats) KnownHit(sig string) { s.mu.Lock(); s.Known[sig]++; s.mu.Unlock() }
