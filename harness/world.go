package harness

// The multi-shard world the built-in functions run in: accounts with trie semantics, an accounts adapter, a shard
// coordinator, an epoch notifier and a payability oracle per shard, each wired into a container built by the real
// factory.  Everything here is "the node" of DESIGN.md section 2; authority is never enforced here, only in the
// library under test.

import (
	"bytes"
	"encoding/hex"
	"encoding/json"
	"errors"
	"fmt"
	"math/big"
	"runtime"
	"runtime/debug"
	"runtime/metrics"
	"sort"
	"strings"
	"sync"

	vmcommon "github.com/ElrondNetwork/elrond-vm-common"
	"github.com/ElrondNetwork/elrond-vm-common/builtInFunctions"
)

// HB is a byte string that renders as hex in JSON (replay files, samples).
type HB []byte

func (h HB) MarshalJSON() ([]byte, error) { return json.Marshal(hex.EncodeToString(h)) }
func (h *HB) UnmarshalJSON(b []byte) error {
	var s string
	if err := json.Unmarshal(b, &s); err != nil {
		return err
	}
	d, err := hex.DecodeString(s)
	if err != nil {
		return err
	}
	*h = d
	return nil
}

// ---------------------------------------------------------------- accounts

// Account mirrors a node's user account object.  What LoadAccount (and the node, for the accounts it passes to a
// built-in function) hands out is a DETACHED COPY of the persisted account: changes reach the ledger only through
// SaveAccount - by the node, after a successful execution, for the two accounts it passed; by the library for every
// account it loaded itself.  An account that never stored a key has no data trie, and reading a key that the object
// itself has not written then fails (elrond-go's ErrNilTrie) - which is why every read in the library is fail-soft.
type Account struct {
	sh       *Shard
	mu       sync.Mutex
	Addr     []byte
	Storage  map[string][]byte
	HasTrie  bool // a data trie exists (some key was persisted at some time)
	Balance  *big.Int
	Owner    []byte
	UserName []byte
	Reward   *big.Int
	CodeMeta []byte
}

func newAccount(sh *Shard, addr []byte) *Account {
	return &Account{sh: sh, Addr: cp(addr), Storage: map[string][]byte{}, Balance: new(big.Int), Reward: new(big.Int)}
}

func (a *Account) clone(sh *Shard) *Account {
	c := &Account{sh: sh, Addr: cp(a.Addr), Storage: make(map[string][]byte, len(a.Storage)), Balance: new(big.Int).Set(a.Balance),
		Owner: cp(a.Owner), UserName: cp(a.UserName), Reward: new(big.Int).Set(a.Reward), CodeMeta: cp(a.CodeMeta), HasTrie: a.HasTrie || len(a.Storage) > 0}
	for k, v := range a.Storage {
		c.Storage[k] = cp(v)
	}
	return c
}

// vmcommon.UserAccountHandler
func (a *Account) GetCodeMetadata() []byte                         { return cp(a.CodeMeta) }
func (a *Account) GetCodeHash() []byte                             { return nil }
func (a *Account) GetRootHash() []byte                             { return nil }
func (a *Account) AccountDataHandler() vmcommon.AccountDataHandler { return a }
func (a *Account) AddressBytes() []byte                            { return cp(a.Addr) }
func (a *Account) IncreaseNonce(uint64)                            {}
func (a *Account) GetNonce() uint64                                { return 0 }
func (a *Account) IsInterfaceNil() bool                            { return a == nil }

func (a *Account) GetBalance() *big.Int {
	a.mu.Lock()
	defer a.mu.Unlock()
	return new(big.Int).Set(a.Balance)
}

func (a *Account) AddToBalance(v *big.Int) error {
	if err := a.sh.dep("add-balance"); err != nil {
		return err
	}
	if a.sh.concurrent {
		runtime.Gosched() // see SaveKeyValue
	}
	a.mu.Lock()
	defer a.mu.Unlock()
	a.sh.mutated()
	a.Balance.Add(a.Balance, v)
	return nil
}

// ClaimDeveloperRewards is deliberately dumb: no authority check of its own.
func (a *Account) ClaimDeveloperRewards([]byte) (*big.Int, error) {
	if err := a.sh.dep("claim-rewards"); err != nil {
		return nil, err
	}
	if a.sh.concurrent {
		runtime.Gosched() // see SaveKeyValue
	}
	a.mu.Lock()
	defer a.mu.Unlock()
	a.sh.mutated()
	r := a.Reward
	a.Reward = new(big.Int)
	return r, nil
}

func (a *Account) GetDeveloperReward() *big.Int {
	a.mu.Lock()
	defer a.mu.Unlock()
	return new(big.Int).Set(a.Reward)
}

// ChangeOwnerAddress is deliberately dumb: no authority check of its own.
func (a *Account) ChangeOwnerAddress(_ []byte, newOwner []byte) error {
	if err := a.sh.dep("change-owner"); err != nil {
		return err
	}
	if a.sh.concurrent {
		runtime.Gosched() // see SaveKeyValue
	}
	a.mu.Lock()
	defer a.mu.Unlock()
	a.sh.mutated()
	a.Owner = cp(newOwner)
	return nil
}

func (a *Account) SetOwnerAddress(o []byte) {
	a.mu.Lock()
	defer a.mu.Unlock()
	a.sh.mutated()
	a.Owner = cp(o)
}

func (a *Account) GetOwnerAddress() []byte {
	a.mu.Lock()
	defer a.mu.Unlock()
	return cp(a.Owner)
}

func (a *Account) SetUserName(u []byte) {
	if a.sh.concurrent {
		runtime.Gosched() // see SaveKeyValue
	}
	a.mu.Lock()
	defer a.mu.Unlock()
	a.sh.mutated()
	a.UserName = cp(u)
}

func (a *Account) GetUserName() []byte {
	a.mu.Lock()
	defer a.mu.Unlock()
	return cp(a.UserName)
}

// vmcommon.AccountDataHandler — trie semantics: a missing key reads as nil, saving an empty value deletes the key,
// keys and values are copied on the way in and out.
func (a *Account) RetrieveValue(key []byte) ([]byte, error) {
	a.mu.Lock()
	defer a.mu.Unlock()
	v, ok := a.Storage[string(key)]
	if !ok {
		if !a.HasTrie && len(a.Storage) == 0 {
			return nil, errNilTrie
		}
		return nil, nil
	}
	return cp(v), nil
}

var errNilTrie = errors.New("nil trie (the account never stored anything)")

func (a *Account) SaveKeyValue(key []byte, value []byte) error {
	if err := a.sh.dep("trie-write"); err != nil {
		return err
	}
	if a.sh.concurrent {
		// a storage write is where a node's execution spends its time: yielding here lets reconfiguration land in the
		// middle of an execution instead of between two executions
		runtime.Gosched()
	}
	a.mu.Lock()
	defer a.mu.Unlock()
	a.sh.mutated()
	if len(value) == 0 {
		delete(a.Storage, string(key))
	} else {
		a.Storage[string(key)] = cp(value)
	}
	return nil
}

// ---------------------------------------------------------------- shard

type Fault struct {
	Kind string `json:"kind"`
	K    int    `json:"k"` // 1-based index of the call of that kind which fails
}

type cfgEvent struct {
	Gas   map[string]map[string]uint64
	Epoch *uint32
}

type ShardConfig struct {
	NShards          uint32                       `json:"n_shards"`
	Self             uint32                       `json:"self"`
	Gas              map[string]map[string]uint64 `json:"gas"`
	GasBeforeCreate  map[string]map[string]uint64 `json:"gas_before_create,omitempty"`
	DNS              []HB                         `json:"dns"`
	EnableNameChange bool                         `json:"enable_name_change"`
	ActivationEpoch  uint32                       `json:"activation_epoch"`
	// StartEpoch is the epoch the chain is in when the factory is built (a node restarted later than epoch 0, or a
	// second container of a running node): the notifier announces it to every function at registration
	StartEpoch uint32 `json:"start_epoch,omitempty"`
}

type Shard struct {
	mu       sync.Mutex
	Cfg      ShardConfig
	Accounts map[string]*Account
	Factory  interface {
		GasScheduleChange(map[string]map[string]uint64)
	}
	Container vmcommon.BuiltInFunctionContainer
	Marsh     *shardMarshalizer
	Payable   map[string]int // address -> 0 payable, 1 non-payable, 2 oracle error; default payable
	notifier  *notifier
	log       []cfgEvent
	accepted  map[string]map[string]uint64 // the last schedule that satisfies the documented acceptance rule

	tracking   bool // dependency counting / fault injection (off in the concurrency check)
	concurrent bool
	depCount   map[string]int
	fault      *Fault
	faultHit   bool
	mutations  int64
}

type notifier struct {
	mu       sync.Mutex
	handlers []vmcommon.EpochSubscriberHandler
	epoch    uint32
}

// RegisterNotifyHandler behaves like elrond-go's epoch notifier: the handler is told the current epoch at once.
func (n *notifier) RegisterNotifyHandler(h vmcommon.EpochSubscriberHandler) {
	n.mu.Lock()
	n.handlers = append(n.handlers, h)
	e := n.epoch
	n.mu.Unlock()
	h.EpochConfirmed(e, epochTimestamp(e))
}

// epochTimestamp is the header timestamp that accompanies an epoch notification: later epochs have later timestamps,
// so a regression (rollback to a block of an earlier epoch) comes with a SMALLER timestamp, as in a node.
func epochTimestamp(e uint32) uint64     { return 1_600_000_000 + uint64(e)*14_400 }
func (n *notifier) IsInterfaceNil() bool { return n == nil }
func (n *notifier) confirm(e uint32) {
	n.mu.Lock()
	n.epoch = e
	hs := append([]vmcommon.EpochSubscriberHandler{}, n.handlers...)
	n.mu.Unlock()
	for _, h := range hs {
		h.EpochConfirmed(e, epochTimestamp(e))
	}
}

type shardMarshalizer struct{ sh *Shard }

func (m *shardMarshalizer) Marshal(obj interface{}) ([]byte, error) {
	if err := m.sh.dep("marshal"); err != nil {
		return nil, err
	}
	o, ok := obj.(protoObj)
	if !ok {
		return nil, errNotProto
	}
	return o.Marshal()
}
func (m *shardMarshalizer) Unmarshal(obj interface{}, buff []byte) error {
	if err := m.sh.dep("unmarshal"); err != nil {
		return err
	}
	o, ok := obj.(protoObj)
	if !ok {
		return errNotProto
	}
	o.Reset()
	return o.Unmarshal(buff)
}
func (m *shardMarshalizer) IsInterfaceNil() bool { return m == nil }

func (s *Shard) dep(kind string) error {
	if !s.tracking {
		return nil
	}
	s.depCount[kind]++
	if s.fault != nil && s.fault.Kind == kind && s.depCount[kind] == s.fault.K {
		s.faultHit = true
		return errInjected
	}
	return nil
}

func (s *Shard) mutated() {
	if !s.concurrent {
		s.mutations++
	}
}

// vmcommon.Coordinator
type coordinator struct{ self, n uint32 }

func computeShard(addr []byte, n uint32) uint32 {
	if len(addr) == 0 {
		return 0
	}
	if refIsSCOnMeta(addr[len(addr)-1:], addr) {
		return refMetachainShard
	}
	return uint32(addr[len(addr)-1]) % n
}
func (c *coordinator) NumberOfShards() uint32                { return c.n }
func (c *coordinator) ComputeId(a []byte) uint32             { return computeShard(a, c.n) }
func (c *coordinator) SelfId() uint32                        { return c.self }
func (c *coordinator) SameShard(a, b []byte) bool            { return c.ComputeId(a) == c.ComputeId(b) }
func (c *coordinator) CommunicationIdentifier(uint32) string { return "" }
func (c *coordinator) IsInterfaceNil() bool                  { return c == nil }

// vmcommon.PayableHandler
type payOracle struct{ sh *Shard }

var errOracle = fmt.Errorf("payability oracle failure")

func (p *payOracle) IsPayable(addr []byte) (bool, error) {
	if err := p.sh.dep("is-payable"); err != nil {
		return true, err // a failing oracle gives no usable answer: a caller that ignores the error must not get away with it
	}
	p.sh.mu.Lock()
	mode := p.sh.Payable[string(addr)]
	p.sh.mu.Unlock()
	switch mode {
	case 1:
		return false, nil
	case 2:
		return true, errOracle // as above: the boolean of a failed query means nothing
	}
	return true, nil
}
func (p *payOracle) IsInterfaceNil() bool { return p == nil }

// vmcommon.AccountsAdapter
func (s *Shard) get(addr []byte) *Account {
	s.mu.Lock()
	defer s.mu.Unlock()
	a, ok := s.Accounts[string(addr)]
	if !ok {
		a = newAccount(s, addr)
		s.Accounts[string(addr)] = a
	}
	return a
}

func (s *Shard) LoadAccount(addr []byte) (vmcommon.AccountHandler, error) {
	kind := "load-account"
	if bytes.Equal(addr, refSystemAccount) {
		kind = "load-system-account"
	}
	if err := s.dep(kind); err != nil {
		return nil, err
	}
	return s.load(addr), nil
}

// load hands out a detached copy of the persisted account (a blank one when nothing is persisted under the address).
func (s *Shard) load(addr []byte) *Account {
	s.mu.Lock()
	defer s.mu.Unlock()
	if a, ok := s.Accounts[string(addr)]; ok {
		a.mu.Lock()
		defer a.mu.Unlock()
		return a.clone(s)
	}
	return newAccount(s, addr)
}

// store persists the state of an account object (what SaveAccount does).
func (s *Shard) store(a *Account) {
	a.mu.Lock()
	c := a.clone(s)
	a.HasTrie = c.HasTrie
	a.mu.Unlock()
	s.mu.Lock()
	s.Accounts[string(c.Addr)] = c
	s.mu.Unlock()
}

// nodeSave is the node's part after a successful execution: it saves the accounts it passed to the function.  The one
// exception is a recipient that is literally the canonical system-account address (no real transaction has it - the
// metachain addresses each shard's copy with the shard id in the last byte): the library loads and saves that account
// itself, and writing the node's untouched copy over it would be an artefact of this harness.
func (s *Shard) nodeSave(c *Call, snd, dst vmcommon.UserAccountHandler) {
	if a, ok := snd.(*Account); ok && a != nil {
		s.store(a)
	}
	if a, ok := dst.(*Account); ok && a != nil && dst != snd && !bytes.Equal(c.Rcv, refSystemAccount) {
		s.store(a)
	}
}

// GetExistingAccount fails for an address without an account record, as a node's accounts database does (LoadAccount
// hands out a blank account instead).
func (s *Shard) GetExistingAccount(addr []byte) (vmcommon.AccountHandler, error) {
	s.mu.Lock()
	_, ok := s.Accounts[string(addr)]
	s.mu.Unlock()
	if !ok {
		return nil, errAccountNotFound
	}
	return s.LoadAccount(addr)
}

var errAccountNotFound = errors.New("account was not found")

func (s *Shard) SaveAccount(h vmcommon.AccountHandler) error {
	if err := s.dep("save-account"); err != nil {
		return err
	}
	if a, ok := h.(*Account); ok && a != nil {
		s.store(a)
	}
	return nil
}
func (s *Shard) RemoveAccount([]byte) error { return nil }
func (s *Shard) Commit() ([]byte, error)    { return nil, nil }
func (s *Shard) JournalLen() int            { return 0 }
func (s *Shard) RevertToSnapshot(int) error { return nil }
func (s *Shard) GetNumCheckpoints() uint32  { return 0 }
func (s *Shard) GetCode([]byte) []byte      { return nil }
func (s *Shard) RootHash() ([]byte, error)  { return nil, nil }
func (s *Shard) RecreateTrie([]byte) error  { return nil }
func (s *Shard) IsInterfaceNil() bool       { return s == nil }

func copyGas(g map[string]map[string]uint64) map[string]map[string]uint64 {
	out := map[string]map[string]uint64{}
	for k, m := range g {
		out[k] = map[string]uint64{}
		for kk, v := range m {
			out[k][kk] = v
		}
	}
	return out
}

// NewShard builds a shard around a container created by the real factory.
func NewShard(cfg ShardConfig) (*Shard, error) {
	s := &Shard{Cfg: cfg, Accounts: map[string]*Account{}, Payable: map[string]int{}, notifier: &notifier{}, depCount: map[string]int{}, tracking: true}
	s.Marsh = &shardMarshalizer{sh: s}
	s.notifier.epoch = cfg.StartEpoch
	dns := map[string]struct{}{}
	for _, d := range cfg.DNS {
		dns[string(d)] = struct{}{}
	}
	f, err := builtInFunctions.NewBuiltInFunctionsFactory(builtInFunctions.ArgsCreateBuiltInFunctionContainer{
		GasMap: copyGas(cfg.Gas), MapDNSAddresses: dns, EnableUserNameChange: cfg.EnableNameChange, Marshalizer: s.Marsh, Accounts: s,
		ShardCoordinator: &coordinator{self: cfg.Self, n: cfg.NShards}, EpochNotifier: s.notifier, ESDTNFTImprovementV1ActivationEpoch: cfg.ActivationEpoch,
	})
	if err != nil {
		return nil, err
	}
	if cfg.GasBeforeCreate != nil {
		f.GasScheduleChange(copyGas(cfg.GasBeforeCreate))
		if GasValid(cfg.GasBeforeCreate) {
			s.accepted = copyGas(cfg.GasBeforeCreate)
		}
	}
	c, err := f.CreateBuiltInFunctionContainer()
	if err != nil {
		return nil, err
	}
	if err := builtInFunctions.SetPayableHandler(c, &payOracle{sh: s}); err != nil {
		return nil, err
	}
	s.Factory, s.Container = f, c
	return s, nil
}

// ReplaceFn puts a NEW instance of a built-in function into the container in place of the one the factory put there (a
// node may do that, e.g. to wrap or re-create a function): the instance comes from a spare container that a second
// factory builds over the same shard, constructed with the schedule now in force.  From then on the first factory's
// schedule changes have to reach the new instance like any other entry of the container.
func (s *Shard) ReplaceFn(name string) error {
	cfg := s.Cfg
	gas := cfg.Gas
	if s.accepted != nil {
		gas = s.accepted
	}
	dns := map[string]struct{}{}
	for _, d := range cfg.DNS {
		dns[string(d)] = struct{}{}
	}
	f, err := builtInFunctions.NewBuiltInFunctionsFactory(builtInFunctions.ArgsCreateBuiltInFunctionContainer{
		GasMap: copyGas(gas), MapDNSAddresses: dns, EnableUserNameChange: cfg.EnableNameChange, Marshalizer: s.Marsh, Accounts: s,
		ShardCoordinator: &coordinator{self: cfg.Self, n: cfg.NShards}, EpochNotifier: s.notifier, ESDTNFTImprovementV1ActivationEpoch: cfg.ActivationEpoch,
	})
	if err != nil {
		return err
	}
	spare, err := f.CreateBuiltInFunctionContainer()
	if err != nil {
		return err
	}
	if err := builtInFunctions.SetPayableHandler(spare, &payOracle{sh: s}); err != nil {
		return err
	}
	inst, err := spare.Get(name)
	if err != nil {
		return err
	}
	return s.Container.Replace(name, inst)
}

func (s *Shard) GasScheduleChange(g map[string]map[string]uint64) {
	if !s.concurrent {
		hangEnter([]string{"C16", "C19", "C11"}, "GasScheduleChange/never-returns", "", nil, "a gas-schedule change delivered to the factory")
		defer hangLeave()
	}
	s.log = append(s.log, cfgEvent{Gas: copyGas(g)})
	if GasValid(g) {
		s.accepted = copyGas(g)
	}
	s.Factory.GasScheduleChange(copyGas(g))
}

func (s *Shard) ConfirmEpoch(e uint32) {
	if !s.concurrent {
		hangEnter([]string{"C18", "C19", "C11"}, "EpochConfirmed/never-returns", "", nil, sprintfW("the notification of epoch %d", e))
		defer hangLeave()
	}
	ee := e
	s.log = append(s.log, cfgEvent{Epoch: &ee})
	s.notifier.confirm(e)
}

// Clone rebuilds the shard from its configuration with a fresh container, replays the configuration events (gas
// schedules, epochs) and copies the ledger.
func (s *Shard) Clone() *Shard {
	c, err := NewShard(s.Cfg)
	if err != nil {
		panic(err)
	}
	for _, ev := range s.log {
		if ev.Gas != nil {
			c.GasScheduleChange(ev.Gas)
		} else {
			c.ConfirmEpoch(*ev.Epoch)
		}
	}
	for k, a := range s.Accounts {
		c.Accounts[k] = a.clone(c)
	}
	for k, v := range s.Payable {
		c.Payable[k] = v
	}
	return c
}

// CloneFresh builds a shard that was never reconfigured: its container is CONSTRUCTED with the schedule now in force
// (the last accepted one) and told only the last confirmed epoch - "equal configuration" reached by another road.
func (s *Shard) CloneFresh() *Shard {
	cfg := s.Cfg
	if s.accepted != nil {
		cfg.Gas = copyGas(s.accepted)
	}
	cfg.GasBeforeCreate = nil // already part of "the schedule now in force"
	c, err := NewShard(cfg)
	if err != nil {
		panic(err)
	}
	c.Cfg = s.Cfg
	if s.notifier.epoch != 0 {
		c.ConfirmEpoch(s.notifier.epoch)
	}
	for k, a := range s.Accounts {
		c.Accounts[k] = a.clone(c)
	}
	for k, v := range s.Payable {
		c.Payable[k] = v
	}
	return c
}

func (w *World) CloneFresh() *World {
	c := &World{}
	for _, s := range w.Shards {
		c.Shards = append(c.Shards, s.CloneFresh())
	}
	return c
}

type snapshot map[string]*Account

func (s *Shard) snapshot() snapshot {
	snap := make(snapshot, len(s.Accounts))
	for k, a := range s.Accounts {
		snap[k] = a.clone(s)
	}
	return snap
}

func (s *Shard) restore(snap snapshot) {
	s.Accounts = map[string]*Account{}
	for k, a := range snap {
		s.Accounts[k] = a
	}
}

// ---------------------------------------------------------------- world

type World struct {
	Shards []*Shard
}

func (w *World) Clone() *World {
	c := &World{}
	for _, s := range w.Shards {
		c.Shards = append(c.Shards, s.Clone())
	}
	return c
}

func (w *World) ShardOf(addr []byte) uint32 { return computeShard(addr, uint32(len(w.Shards))) }

// ---------------------------------------------------------------- calls

// Call is one concrete execution of a built-in function on one shard: every byte is fixed.
type Call struct {
	Shard     int    `json:"shard"`
	Fn        string `json:"fn"`
	Caller    HB     `json:"caller"`
	Rcv       HB     `json:"rcv"`
	Args      []HB   `json:"args"`
	Gas       uint64 `json:"gas"`
	GasLocked uint64 `json:"gas_locked,omitempty"`
	CallType  int    `json:"call_type,omitempty"`
	CallValue int    `json:"call_value,omitempty"` // 0 -> 0, 1 -> 1, 2 -> 2^70
	RetErr    bool   `json:"return_after_error,omitempty"`
	MsgID     int    `json:"msg,omitempty"`       // >0: this call delivers in-flight message #MsgID (N3-N5)
	Redeliver bool   `json:"redeliver,omitempty"` // immediate re-delivery of a hand-over message (N6)
}

func (c *Call) String() string {
	args := make([]string, len(c.Args))
	for i, a := range c.Args {
		args[i] = hx(a)
	}
	return fmt.Sprintf("shard%d %s(caller=%s rcv=%s args=%v gas=%d type=%d value=%d retErr=%v)", c.Shard, c.Fn, shortAddr(c.Caller), shortAddr(c.Rcv), args, c.Gas, c.CallType, c.CallValue, c.RetErr)
}

func shortAddr(a []byte) string {
	if len(a) == 32 {
		return hx(a[:2]) + ".." + hx(a[9:11]) + ".." + hx(a[30:])
	}
	return hx(a)
}

type DiffEntry struct {
	Account string // raw address
	Key     string // storage key, or "#owner" "#username" "#reward" "#balance"
	Old     []byte
	New     []byte
}

type Result struct {
	Out                *vmcommon.VMOutput
	Err                error
	Panic              interface{}
	Stack              string
	Alloc              uint64
	Diff               []DiffEntry
	InputMut           string   // non-empty: how the call modified its input
	ArgsAfter          [][]byte // the argument list as the input structure holds it AFTER the call (a node re-reads it)
	Deps               map[string]int
	FaultHit           bool
	OtherShardsTouched bool
}

func (r *Result) OK() bool { return r.Panic == nil && r.Err == nil && r.Out != nil }

var allocSample = []metrics.Sample{{Name: "/gc/heap/allocs:bytes"}}

func heapAllocs() uint64 {
	metrics.Read(allocSample)
	return allocSample[0].Value.Uint64()
}

var bigCallValue = new(big.Int).Lsh(big.NewInt(1), 70)

type laidOutInput struct {
	in      *vmcommon.ContractCallInput
	backing []byte
	copyOf  []byte
	offs    [][2]int
	caller  []byte
	rcv     []byte
}

const poison = 0xEE

// layOut builds the input structure with all arguments as sub-slices of ONE backing array: every argument's capacity
// runs to the end of the array, so an in-place append by the callee would overwrite its neighbours, and the spare
// capacity after the last argument is poisoned.
func layOut(c *Call) *laidOutInput {
	total := 0
	for _, a := range c.Args {
		total += len(a)
	}
	const spare = 24
	backing := make([]byte, total+spare)
	for i := total; i < len(backing); i++ {
		backing[i] = poison
	}
	l := &laidOutInput{backing: backing}
	args := make([][]byte, len(c.Args))
	off := 0
	for i, a := range c.Args {
		copy(backing[off:], a)
		args[i] = backing[off : off+len(a)] // capacity deliberately extends over the following arguments
		l.offs = append(l.offs, [2]int{off, len(a)})
		off += len(a)
	}
	l.copyOf = cp(backing)
	withSpare := func(b []byte) []byte {
		x := make([]byte, len(b), len(b)+8)
		copy(x, b)
		for i := len(b); i < cap(x); i++ {
			x[:cap(x)][i] = poison
		}
		return x
	}
	l.caller, l.rcv = withSpare(c.Caller), withSpare(c.Rcv)
	var value *big.Int
	switch c.CallValue {
	case 1:
		value = big.NewInt(1)
	case 2:
		value = new(big.Int).Set(bigCallValue)
	default:
		value = new(big.Int)
	}
	l.in = &vmcommon.ContractCallInput{
		VMInput: vmcommon.VMInput{CallerAddr: l.caller, Arguments: args, CallValue: value, CallType: vmcommon.CallType(c.CallType),
			GasProvided: c.Gas, GasLocked: c.GasLocked, ReturnCallAfterError: c.RetErr},
		RecipientAddr: l.rcv, Function: c.Fn,
	}
	return l
}

// intact compares the input structure with what was laid out.
func (l *laidOutInput) intact(c *Call) string {
	in := l.in
	if !bytes.Equal(l.backing, l.copyOf) {
		return fmt.Sprintf("argument bytes (or their spare capacity) changed: %x -> %x", l.copyOf, l.backing)
	}
	if len(in.Arguments) != len(c.Args) {
		return fmt.Sprintf("argument count changed from %d to %d", len(c.Args), len(in.Arguments))
	}
	for i, a := range in.Arguments {
		if len(a) != l.offs[i][1] || (len(a) > 0 && &a[0] != &l.backing[l.offs[i][0]]) {
			return fmt.Sprintf("argument %d was re-sliced or replaced", i)
		}
	}
	full := func(b []byte) []byte { return b[:cap(b)] }
	wantCaller, wantRcv := append(cp(c.Caller), bytes.Repeat([]byte{poison}, 8)...), append(cp(c.Rcv), bytes.Repeat([]byte{poison}, 8)...)
	if len(in.CallerAddr) != len(c.Caller) || !bytes.Equal(full(l.caller), wantCaller) {
		return "CallerAddr changed"
	}
	if len(in.RecipientAddr) != len(c.Rcv) || !bytes.Equal(full(l.rcv), wantRcv) {
		return "RecipientAddr changed"
	}
	var value *big.Int
	switch c.CallValue {
	case 1:
		value = big.NewInt(1)
	case 2:
		value = bigCallValue
	default:
		value = new(big.Int)
	}
	if in.CallValue == nil || in.CallValue.Cmp(value) != 0 {
		return "CallValue changed"
	}
	if in.Function != c.Fn || in.GasProvided != c.Gas || in.GasLocked != c.GasLocked || int(in.CallType) != c.CallType || in.ReturnCallAfterError != c.RetErr || in.GasPrice != 0 ||
		in.OriginalTxHash != nil || in.CurrentTxHash != nil || in.PrevTxHash != nil || in.ESDTTransfers != nil || in.AllowInitFunction {
		return "a scalar field of the input changed"
	}
	return ""
}

// accountsFor applies N1: the caller's / recipient's account iff it lives on the executing shard.
func (s *Shard) accountsFor(c *Call) (snd, dst vmcommon.UserAccountHandler) {
	if computeShard(c.Caller, s.Cfg.NShards) == s.Cfg.Self {
		snd = s.load(c.Caller)
	}
	if computeShard(c.Rcv, s.Cfg.NShards) == s.Cfg.Self || refIsSystemAccount(c.Rcv) {
		if snd != nil && bytes.Equal(c.Caller, c.Rcv) {
			dst = snd // one account, one object
		} else {
			dst = s.load(c.Rcv)
		}
	}
	return
}

// Exec runs one call on its shard with node semantics (N1, N2) and observes everything the monitors need.
func (w *World) Exec(c *Call) *Result {
	s := w.Shards[c.Shard]
	res := &Result{}
	fn, err := s.Container.Get(c.Fn)
	if err != nil {
		res.Err = err
		return res
	}
	snap := s.snapshot()
	others := make([]int64, len(w.Shards))
	for i, o := range w.Shards {
		others[i] = o.mutations
	}
	hangEnterCall(c)
	defer hangLeave()
	l := layOut(c)
	snd, dst := s.accountsFor(c)
	for k := range s.depCount {
		delete(s.depCount, k)
	}
	s.faultHit = false
	before := heapAllocs()
	func() {
		defer func() {
			if p := recover(); p != nil {
				res.Panic = p
				res.Stack = string(debug.Stack())
			}
		}()
		res.Out, res.Err = fn.ProcessBuiltinFunction(snd, dst, l.in)
	}()
	res.Alloc = heapAllocs() - before
	res.FaultHit = s.faultHit
	res.Deps = map[string]int{}
	for k, v := range s.depCount {
		res.Deps[k] = v
	}
	res.InputMut = l.intact(c)
	for _, a := range l.in.Arguments {
		res.ArgsAfter = append(res.ArgsAfter, cp(a))
	}
	for i, o := range w.Shards {
		if i != c.Shard && o.mutations != others[i] {
			res.OtherShardsTouched = true
		}
	}
	if res.Panic != nil || res.Err != nil || res.Out == nil {
		s.restore(snap) // N2
		return res
	}
	s.nodeSave(c, snd, dst)
	res.Diff = diffSnap(snap, s)
	return res
}

func diffSnap(before snapshot, s *Shard) []DiffEntry {
	var out []DiffEntry
	addrs := map[string]bool{}
	for k := range before {
		addrs[k] = true
	}
	for k := range s.Accounts {
		addrs[k] = true
	}
	sorted := make([]string, 0, len(addrs))
	for k := range addrs {
		sorted = append(sorted, k)
	}
	sort.Strings(sorted)
	empty := &Account{Storage: map[string][]byte{}, Balance: new(big.Int), Reward: new(big.Int)}
	for _, addr := range sorted {
		o, n := before[addr], s.Accounts[addr]
		if o == nil {
			o = empty
		}
		if n == nil {
			n = empty
		}
		keys := map[string]bool{}
		for k := range o.Storage {
			keys[k] = true
		}
		for k := range n.Storage {
			keys[k] = true
		}
		ks := make([]string, 0, len(keys))
		for k := range keys {
			ks = append(ks, k)
		}
		sort.Strings(ks)
		for _, k := range ks {
			if !bytes.Equal(o.Storage[k], n.Storage[k]) {
				out = append(out, DiffEntry{Account: addr, Key: k, Old: o.Storage[k], New: n.Storage[k]})
			}
		}
		if !bytes.Equal(o.Owner, n.Owner) {
			out = append(out, DiffEntry{Account: addr, Key: "#owner", Old: o.Owner, New: n.Owner})
		}
		if !bytes.Equal(o.UserName, n.UserName) {
			out = append(out, DiffEntry{Account: addr, Key: "#username", Old: o.UserName, New: n.UserName})
		}
		if o.Reward.Cmp(n.Reward) != 0 {
			out = append(out, DiffEntry{Account: addr, Key: "#reward", Old: o.Reward.Bytes(), New: n.Reward.Bytes()})
		}
		if o.Balance.Cmp(n.Balance) != 0 {
			out = append(out, DiffEntry{Account: addr, Key: "#balance", Old: o.Balance.Bytes(), New: n.Balance.Bytes()})
		}
	}
	return out
}

// ---------------------------------------------------------------- gas schedules

var baseCostNames = []string{"StorePerByte", "ReleasePerByte", "DataCopyPerByte", "PersistPerByte", "CompilePerByte", "AoTPreparePerByte"}
var builtInCostNames = []string{"ChangeOwnerAddress", "ClaimDeveloperRewards", "SaveUserName", "SaveKeyValue", "ESDTTransfer", "ESDTBurn", "ESDTLocalMint",
	"ESDTLocalBurn", "ESDTNFTCreate", "ESDTNFTAddQuantity", "ESDTNFTBurn", "ESDTNFTTransfer", "ESDTNFTChangeCreateOwner", "ESDTNFTMultiTransfer",
	"ESDTNFTAddURI", "ESDTNFTUpdateAttributes"}

// GasMapFrom builds a schedule from 22 values (6 base operation costs then 16 built-in costs).
func GasMapFrom(vals []uint64) map[string]map[string]uint64 {
	m := map[string]map[string]uint64{refBaseOperationCostSection: {}, refBuiltInCostSection: {}}
	for i, n := range baseCostNames {
		m[refBaseOperationCostSection][n] = vals[i]
	}
	for i, n := range builtInCostNames {
		m[refBuiltInCostSection][n] = vals[len(baseCostNames)+i]
	}
	return m
}

// DistinctGas is a schedule with 22 pairwise distinct small primes-ish values, scaled.
func DistinctGas(scale uint64) map[string]map[string]uint64 {
	vals := make([]uint64, 22)
	p := []uint64{3, 5, 7, 11, 13, 17, 101, 103, 107, 109, 113, 127, 131, 137, 139, 149, 151, 157, 163, 167, 173, 179}
	for i := range vals {
		vals[i] = p[i] * scale
	}
	return GasMapFrom(vals)
}

// GasValid mirrors the documented acceptance rule: every one of the 22 entries present and non-zero.
// normGas spells every key of a schedule the canonical way (keys are matched case-insensitively, as the factory's
// decoder does); keys that name nothing are dropped.
func normGas(g map[string]map[string]uint64) map[string]map[string]uint64 {
	out := map[string]map[string]uint64{}
	for sect, names := range map[string][]string{refBaseOperationCostSection: baseCostNames, refBuiltInCostSection: builtInCostNames} {
		out[sect] = map[string]uint64{}
		for k, v := range g[sect] {
			for _, n := range names {
				if strings.EqualFold(k, n) {
					out[sect][n] = v
				}
			}
		}
	}
	return out
}

func GasValid(g map[string]map[string]uint64) bool {
	g = normGas(g)
	for _, n := range baseCostNames {
		if g[refBaseOperationCostSection][n] == 0 {
			return false
		}
	}
	for _, n := range builtInCostNames {
		if g[refBuiltInCostSection][n] == 0 {
			return false
		}
	}
	return true
}

func sprintfW(f string, a ...interface{}) string { return fmt.Sprintf(f, a...) }
