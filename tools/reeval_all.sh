#!/bin/bash
# Re-runs every kept seeded change against its own property's quick check (after the checks were changed) and lists misses.
cd "$(dirname "$(readlink -f "$0")")/.."
for d in seeded/C*; do
  p=$(basename $d | cut -d- -f1)
  r=$(tools/evalseed.sh $d $p | tail -1)
  case "$r" in *"rc=1"*) echo "caught  $(basename $d)";; *) echo "MISSED  $(basename $d)   $r";; esac
done
