#!/bin/bash
# usage: tools/trymutant.sh <patch.diff> <property> [<property>...]
# Applies the patch to a scratch copy of /repo (never to /repo itself), checks that it still builds and passes the
# repository's own tests, runs the named quick checks against it (VERIF_REPO) and removes the copy.
set -u
export GOFLAGS=-mod=mod GOPROXY=off GOSUMDB=off GOTOOLCHAIN=local
PATCH=$(readlink -f "$1"); shift
D=$(mktemp -d /var/tmp/mut.XXXXXX)
trap 'rm -rf "$D"' EXIT
(cd /repo && git archive HEAD) | tar -x -C "$D"
(cd "$D" && git init -q . 2>/dev/null; git -C "$D" apply --unsafe-paths "$PATCH" 2>/dev/null || patch -s -p1 -d "$D" < "$PATCH") || { echo "PATCH-FAILED"; exit 3; }
if ! (cd "$D" && go build ./... 2>&1 | tail -3); then echo BUILD-FAILED; exit 3; fi
T=$(cd "$D" && go test -vet=off -count=1 ./... 2>&1 | grep -v "^ok\|no test files")
if [ -n "$T" ]; then echo "REPO-TESTS-FAIL (mutant not admissible):"; echo "$T" | head -5; fi
for P in "$@"; do
  OUT=$(cd "$(dirname "$(readlink -f "$0")")/.." && VERIF_REPO="$D" VERIF_REPLAY_KEEP=1 ./check "$P" 2>&1); RC=$?
  echo "$P rc=$RC $(echo "$OUT" | grep -m1 -A1 'VIOLATION\|OK property\|INCONCLUSIVE' | tr '\n' ' ' | cut -c1-260)"
done
