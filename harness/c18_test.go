package harness

// C18 — activation follows confirmed epochs; the registry is complete and correctly bound.

import (
	"bytes"
	"encoding/json"
	"sort"
	"sync"
	"sync/atomic"
	"testing"

	vmcommon "github.com/ElrondNetwork/elrond-vm-common"
	"pgregory.net/rapid"
)

type epochCase struct {
	Activation uint32   `json:"activation"`
	Epochs     []uint32 `json:"epochs"`
	Start      uint32   `json:"start,omitempty"` // the epoch the chain is in when the container is built
}

// c18Epochs replays one notification sequence on a fresh container.
func c18Epochs(ec epochCase) (string, string, int) {
	sh, err := NewShard(ShardConfig{NShards: 1, Self: 0, Gas: DistinctGas(1), ActivationEpoch: ec.Activation, StartEpoch: ec.Start})
	if err != nil {
		return "factory/error", err.Error(), 0
	}
	flips := 0
	last := ec.Start // the notifier announces its current epoch at registration
	prev := last >= ec.Activation
	check := func(step int) (string, string) {
		for _, name := range allFunctionNames {
			f, err := sh.Container.Get(name)
			if err != nil {
				return "registry/missing", sprintf("%s is not in the container: %v", name, err)
			}
			want := true
			if gatedFns[name] {
				want = last >= ec.Activation
			}
			if f.IsActive() != want {
				return "activation/" + name, sprintf("activation epoch %d, notifications %v: after step %d (last confirmed epoch %d) %s reports active=%v", ec.Activation, ec.Epochs, step, last, name, f.IsActive())
			}
		}
		return "", ""
	}
	if sig, msg := check(0); sig != "" {
		return sig, msg, 0
	}
	for i, e := range ec.Epochs {
		sh.ConfirmEpoch(e)
		last = e
		if now := last >= ec.Activation; now != prev {
			flips++
			prev = now
		}
		if sig, msg := check(i + 1); sig != "" {
			return sig, msg, flips
		}
	}
	return "", "", flips
}

// c18Stable: while notifications are being delivered whose epochs are ALL at or above the activation epoch (the chain
// moves on, repeats, regresses - but never below it), "the most recently confirmed epoch" is at or above it at every
// instant, so a reader must never see a gated function inactive - not even in the middle of a delivery.
func c18Stable(activation uint32, epochs []uint32) (string, string, int) {
	sh, err := NewShard(ShardConfig{NShards: 1, Self: 0, Gas: DistinctGas(1), ActivationEpoch: activation, StartEpoch: activation})
	if err != nil {
		return "factory/error", err.Error(), 0
	}
	var fns []vmcommon.BuiltinFunction
	var names []string
	for name := range gatedFns {
		f, err := sh.Container.Get(name)
		if err != nil {
			return "registry/missing", sprintf("%s is not in the container: %v", name, err), 0
		}
		fns, names = append(fns, f), append(names, name)
	}
	var stop int32
	var bad atomic.Value
	var reads int64
	var wg sync.WaitGroup
	for r := 0; r < 2; r++ {
		wg.Add(1)
		go func() {
			defer wg.Done()
			for atomic.LoadInt32(&stop) == 0 {
				for i, f := range fns {
					atomic.AddInt64(&reads, 1)
					if !f.IsActive() {
						bad.Store(names[i])
						return
					}
				}
			}
		}()
	}
	for round := 0; round < 200 && bad.Load() == nil; round++ {
		for _, e := range epochs {
			sh.notifier.confirm(e)
		}
	}
	atomic.StoreInt32(&stop, 1)
	wg.Wait()
	if v := bad.Load(); v != nil {
		return "activation/" + v.(string) + "/inactive-during-a-notification", sprintf("activation epoch %d, container built in epoch %d, notifications %v (every one at or above the activation epoch) delivered repeatedly: a concurrent reader saw %s report inactive", activation, activation, epochs, v.(string)), int(reads)
	}
	return "", "", int(reads)
}

func c18Keys(spec WorldSpec) (string, string) {
	e := NewEngine(spec)
	want := append([]string{}, protocolFunctionNames...)
	sort.Strings(want)
	for i, sh := range e.W.Shards {
		keys := sh.Container.Keys()
		got := make([]string, 0, len(keys))
		for k := range keys {
			got = append(got, k)
		}
		sort.Strings(got)
		if len(got) != len(want) || sh.Container.Len() != len(want) {
			return "registry/size", sprintf("shard %d container has %d keys (Len %d), the protocol has %d built-in functions: %v", i, len(got), sh.Container.Len(), len(want), got)
		}
		for j := range want {
			if got[j] != want[j] {
				return "registry/names", sprintf("shard %d container holds %q where the protocol has %q", i, got[j], want[j])
			}
		}
	}
	return "", ""
}

// c18Script exercises every one of the 23 names once with the engine's exact-effect oracle: a function bound to the
// wrong behaviour shows the wrong diff (or fails where it must succeed).
func c18Script(spec WorldSpec) []Op {
	sys := refESDTSC
	u0, u1 := []byte(spec.Users[0]), []byte(spec.Users[1])
	far := []byte(spec.Users[len(spec.Users)-2]) // last shard's second user (same shard as u0 when there is one shard)
	if bytes.Equal(far, spec.Contracts[0].Owner) {
		far = []byte(spec.Users[0]) // the new owner differs from the current one
		if bytes.Equal(far, spec.Contracts[0].Owner) {
			far = []byte(spec.Users[1])
		}
	}
	sc := []byte(spec.Contracts[0].Addr)
	owner := []byte(spec.Contracts[0].Owner)
	dns := []byte(spec.DNS[0])
	n := uint32(spec.NShards)
	sh := func(a []byte) int { return int(computeShard(a, n)) }
	F, S := []byte("FNG-a1b2c3"), []byte("SFT-0a0b0c")
	call := func(shard int, fn string, caller, rcv []byte, args ...[]byte) Op {
		return callOp(&Call{Shard: shard, Fn: fn, Caller: cp(caller), Rcv: cp(rcv), Args: hbs(args...), Gas: ampleGas})
	}
	self := func(fn string, who []byte, args ...[]byte) Op { return call(sh(who), fn, who, who, args...) }
	system := func(fn string, rcv []byte, args ...[]byte) Op { return call(sh(rcv), fn, sys, rcv, args...) }
	ops := []Op{
		system(refBuiltInFunctionESDTTransfer, u0, F, []byte{100}),
		system(refBuiltInFunctionSetESDTRole, u0, F, []byte(refESDTRoleLocalMint), []byte(refESDTRoleLocalBurn)),
		system(refBuiltInFunctionSetESDTRole, u0, S, []byte(refESDTRoleNFTCreate), []byte(refESDTRoleNFTAddQuantity), []byte(refESDTRoleNFTBurn), []byte(refESDTRoleNFTAddURI), []byte(refESDTRoleNFTUpdateAttributes)),
		self(refBuiltInFunctionESDTLocalMint, u0, F, []byte{7}),
		self(refBuiltInFunctionESDTLocalBurn, u0, F, []byte{3}),
		call(sh(u0), refBuiltInFunctionESDTBurn, u0, sys, F, []byte{4}),
		call(sh(u0), refBuiltInFunctionESDTTransfer, u0, u1, F, []byte{10}),
		self(refBuiltInFunctionESDTNFTCreate, u0, S, []byte{9}, []byte("name"), []byte{5}, []byte("hash"), []byte("attrs"), []byte("uri")),
		self(refBuiltInFunctionESDTNFTAddQuantity, u0, S, []byte{1}, []byte{6}),
		self(refBuiltInFunctionESDTNFTBurn, u0, S, []byte{1}, []byte{2}),
		self(refBuiltInFunctionESDTNFTAddURI, u0, S, []byte{1}, []byte("uri2")),
		self(refBuiltInFunctionESDTNFTUpdateAttributes, u0, S, []byte{1}, []byte("attrs2")),
		self(refBuiltInFunctionESDTNFTTransfer, u0, S, []byte{1}, []byte{3}, u1),
		self(refBuiltInFunctionMultiESDTNFTTransfer, u0, u1, []byte{2}, F, []byte{0}, []byte{5}, S, []byte{1}, []byte{2}),
		system(refBuiltInFunctionESDTFreeze, u1, F),
		call(sh(u1), refBuiltInFunctionESDTTransfer, u1, u0, F, []byte{1}), // must fail: frozen
		system(refBuiltInFunctionESDTUnFreeze, u1, F),
		call(sh(u1), refBuiltInFunctionESDTTransfer, u1, u0, F, []byte{1}), // must work again
		system(refBuiltInFunctionESDTFreeze, u1, F),
		system(refBuiltInFunctionESDTWipe, u1, F),
		call(sh(u0), refBuiltInFunctionESDTPause, sys, refSystemAccount, F),
		call(sh(u0), refBuiltInFunctionESDTTransfer, u0, u1, F, []byte{1}), // must fail: paused
		call(sh(u0), refBuiltInFunctionESDTUnPause, sys, refSystemAccount, F),
		call(sh(u0), refBuiltInFunctionESDTTransfer, u0, u1, F, []byte{1}),
		system(refBuiltInFunctionUnSetESDTRole, u0, F, []byte(refESDTRoleLocalMint)),
		self(refBuiltInFunctionESDTLocalMint, u0, F, []byte{7}), // must fail: role gone
		system(refBuiltInFunctionESDTNFTCreateRoleTransfer, u0, S, u1),
		self(refBuiltInFunctionESDTNFTCreate, u1, S, []byte{1}, []byte("n2"), []byte{}, []byte("h2"), []byte{}, []byte("u")),
		self(refBuiltInFunctionSaveKeyValue, u0, []byte("k"), []byte("v")),
	}
	// account-level functions on the owner's / contract's own shards; cross-shard ones travel as messages
	ops = append(ops,
		call(sh(dns), refBuiltInFunctionSetUserName, dns, u0, []byte("alice")),
		call(sh(dns), refBuiltInFunctionSetUserName, dns, spec.Users[len(spec.Users)-2], []byte("bob")), // a user on the last shard: travels as a message when there are several shards
		call(sh(owner), refBuiltInFunctionClaimDeveloperRewards, owner, sc),
		call(sh(owner), refBuiltInFunctionChangeOwnerAddress, owner, sc, far),
	)
	return ops
}

func c18Binding(spec WorldSpec) (string, string, map[string]int) {
	e := NewEngine(spec)
	okCount := map[string]int{}
	step := func(op Op) (string, string) {
		rec := e.Apply(op)
		if rec == nil {
			return "", ""
		}
		if rec.Res.OK() {
			okCount[rec.Call.Fn]++
		}
		for _, cl := range rec.Clauses {
			return "binding/" + rec.Call.Fn + "/" + cl.Sig, sprintf("the function registered as %q does not behave as %q: %s", rec.Call.Fn, rec.Call.Fn, cl.Msg)
		}
		if rec.Lost {
			return "binding/" + rec.Call.Fn + "/unexpected-success", sprintf("%s succeeded where the behaviour of that name does not", rec.Call.String())
		}
		return "", ""
	}
	// the node dispatches the three gated functions only once their activation epoch is confirmed
	e.Apply(Op{Kind: "epoch", Epoch: spec.ActivationEpoch})
	for _, op := range c18Script(spec) {
		if sig, msg := step(op); sig != "" {
			return sig, msg, okCount
		}
		// deliver whatever the step put in flight (hand-over, cross-shard transfers, account-level messages)
		for _, msg := range e.M.pendingMsgs() {
			if sig, m := step(callOp(e.DeliveryCall(msg))); sig != "" {
				return sig, m, okCount
			}
		}
	}
	// the factory's EnableUserNameChange setting is part of the behaviour bound to SetUserName: a second name for an account
	// that has one is accepted exactly when the configuration enables changes
	{
		dns, u0 := []byte(spec.DNS[0]), []byte(spec.Users[0])
		c := &Call{Shard: int(computeShard(dns, uint32(spec.NShards))), Fn: refBuiltInFunctionSetUserName, Caller: cp(dns), Rcv: cp(u0), Args: hbs([]byte("alice-renamed")), Gas: ampleGas}
		if computeShard(dns, uint32(spec.NShards)) == computeShard(u0, uint32(spec.NShards)) {
			rec := e.Apply(callOp(c))
			if rec != nil && rec.Res.Panic == nil && rec.Res.OK() != spec.EnableNameChange {
				return "binding/SetUserName/name-change-setting", sprintf("a container built with EnableUserNameChange=%v: renaming an account that has a name gave %v (%v)", spec.EnableNameChange, outcomeOf(rec), rec.Res.Err), okCount
			}
		}
	}
	for _, name := range allFunctionNames {
		if okCount[name] == 0 {
			return "binding/" + name + "/never-succeeds", sprintf("the fingerprint scenario of %q never succeeded through container.Get(%q)", name, name), okCount
		}
	}
	return "", "", okCount
}

func TestC18(t *testing.T) {
	st := NewStats("C18")
	defer finish(t, st)

	// (a) exhaustive: every epoch sequence of length <= 5 over {0..4} (+ two boundary alphabets at length <= 3), for six activation epochs
	activations := []uint32{0, 1, 2, 3, 1 << 31, 1<<32 - 1}
	idx := 0
	var enum func(alpha []uint32, maxLen int, prefix []uint32)
	enum = func(alpha []uint32, maxLen int, prefix []uint32) {
		if len(prefix) > 0 {
			for _, a := range activations {
				idx++
				if !mine(idx) {
					continue
				}
				ec := epochCase{Activation: a, Epochs: append([]uint32{}, prefix...)}
				sig, msg, flips := c18Epochs(ec)
				st.Eval(1)
				if flips > 0 {
					st.NTEnumerated(1)
					st.Label(sprintf("epochs/flips=%d", flips))
				}
				if idx%9973 == 0 {
					st.Sample("epoch-sequence", ec)
				}
				if sig != "" {
					failPlain(t, st, "C18", "epochs", ec, sig, msg)
				}
			}
		}
		if len(prefix) == maxLen {
			return
		}
		for _, x := range alpha {
			enum(alpha, maxLen, append(prefix, x))
		}
	}
	enum([]uint32{0, 1, 2, 3, 4}, 5, nil)
	enum([]uint32{0, 1<<31 - 1, 1 << 31, 1<<32 - 2, 1<<32 - 1}, 3, nil)
	// containers built in a later epoch than 0: every start epoch x activation epoch x sequence of length 0..2
	var seqs [][]uint32
	seqs = append(seqs, nil)
	for _, a := range []uint32{0, 1, 2, 3, 4} {
		seqs = append(seqs, []uint32{a})
		for _, b := range []uint32{0, 1, 2, 3, 4} {
			seqs = append(seqs, []uint32{a, b})
		}
	}
	for _, start := range []uint32{1, 2, 3, 4, 1 << 31, 1<<32 - 1} {
		for _, a := range activations {
			for _, sq := range seqs {
				idx++
				if !mine(idx) {
					continue
				}
				ec := epochCase{Activation: a, Epochs: sq, Start: start}
				sig, msg, _ := c18Epochs(ec)
				st.Eval(1)
				if (start >= a) != (0 >= a) {
					st.NTEnumerated(1) // the start epoch decides the activity right after construction
				}
				if sig != "" {
					failPlain(t, st, "C18", "epochs", ec, sig, msg)
				}
			}
		}
	}
	st.Exhaustive = append(st.Exhaustive, "IsActive of all 23 functions after every notification, for activation epochs {0,1,2,3,2^31,2^32-1} x (every epoch sequence of length 1..5 over {0,1,2,3,4} + every sequence of length 1..3 over {0,2^31-1,2^31,2^32-2,2^32-1}); and for containers built in start epoch {1,2,3,4,2^31,2^32-1} x the same activation epochs x every sequence of length 0..2 over {0,1,2,3,4}")

	// (b)+(c) generated: random 32-bit sequences; factory configurations with registry and binding fingerprints
	rapid.Check(t, func(rt *rapid.T) {
		ec := epochCase{Activation: rapid.OneOf(rapid.SampledFrom(activations), rapid.Uint32()).Draw(rt, "activation")}
		switch rapid.IntRange(0, 5).Draw(rt, "start-kind") {
		case 0:
			ec.Start = ec.Activation
		case 1:
			ec.Start = ec.Activation + 1
		case 2:
			ec.Start = rapid.Uint32().Draw(rt, "start")
		}
		n := rapid.IntRange(1, 12).Draw(rt, "nepochs")
		for i := 0; i < n; i++ {
			var e uint32
			switch rapid.IntRange(0, 4).Draw(rt, "ekind") {
			case 0:
				e = ec.Activation
			case 1:
				e = ec.Activation - 1
			case 2:
				e = ec.Activation + 1
			case 3:
				if len(ec.Epochs) > 0 {
					e = ec.Epochs[len(ec.Epochs)-1] // repeat
				}
			default:
				e = rapid.Uint32().Draw(rt, "epoch")
			}
			ec.Epochs = append(ec.Epochs, e)
		}
		sig, msg, flips := c18Epochs(ec)
		st.Eval(1)
		if flips > 0 {
			js, _ := json.Marshal(ec)
			st.NT("epochs:" + string(js))
		}
		if sig != "" {
			failRapid(rt, st, "C18", "epochs", ec, sig, msg)
		}
		if rapid.IntRange(0, 15).Draw(rt, "with-stable") == 0 {
			act := rapid.SampledFrom([]uint32{0, 1, 2, 7, 1 << 31}).Draw(rt, "stable-activation")
			var eps []uint32
			for i, k := 0, rapid.IntRange(1, 6).Draw(rt, "stable-n"); i < k; i++ {
				eps = append(eps, act+uint32(rapid.IntRange(0, 5).Draw(rt, "stable-delta")))
			}
			sig, msg, reads := c18Stable(act, eps)
			st.Eval(1)
			st.AddExtra("concurrent_activity_reads_during_notifications", int64(reads))
			if sig != "" {
				failRapid(rt, st, "C18", "stable", map[string]interface{}{"activation": act, "epochs": eps}, sig, msg)
			}
		}
		if rapid.IntRange(0, 7).Draw(rt, "with-config") == 0 {
			spec := GenSpec(rt)
			spec.ActivationEpoch = rapid.SampledFrom([]uint32{0, 0, 1, 7, 1<<32 - 1}).Draw(rt, "cfg-activation")
			st.Eval(2)
			js, _ := json.Marshal(map[string]interface{}{"n": spec.NShards, "act": spec.ActivationEpoch, "name": spec.EnableNameChange, "gas": spec.Gas["BuiltInCost"]["ESDTTransfer"], "owner": hx(spec.Contracts[0].Owner), "reward": spec.Contracts[0].Reward})
			st.NT("config:" + string(js))
			st.Label(sprintf("binding/shards=%d", spec.NShards))
			if sig, msg := c18Keys(spec); sig != "" {
				failRapid(rt, st, "C18", "config", spec, sig, msg)
			}
			sig, msg, oks := c18Binding(spec)
			if sig != "" {
				failRapid(rt, st, "C18", "config", spec, sig, msg)
			}
			st.Sample("binding-config", map[string]interface{}{"config": json.RawMessage(js), "successful_calls_per_name": oks})
		}
	})
}

func replayC18(kind string, raw json.RawMessage) (string, string) {
	switch kind {
	case "epochs":
		var ec epochCase
		if err := json.Unmarshal(raw, &ec); err != nil {
			return "replay/bad-file", err.Error()
		}
		sig, msg, _ := c18Epochs(ec)
		return sig, msg
	case "stable":
		var c struct {
			Activation uint32   `json:"activation"`
			Epochs     []uint32 `json:"epochs"`
		}
		if err := json.Unmarshal(raw, &c); err != nil {
			return "replay/bad-file", err.Error()
		}
		for i := 0; i < 50; i++ { // a schedule-dependent observation: repeat
			if sig, msg, _ := c18Stable(c.Activation, c.Epochs); sig != "" {
				return sig, msg
			}
		}
		return "", ""
	case "config":
		var spec WorldSpec
		if err := json.Unmarshal(raw, &spec); err != nil {
			return "replay/bad-file", err.Error()
		}
		if sig, msg := c18Keys(spec); sig != "" {
			return sig, msg
		}
		sig, msg, _ := c18Binding(spec)
		return sig, msg
	}
	return "replay/unknown-kind", kind
}

func init() { replayers["C18"] = replayC18 }
