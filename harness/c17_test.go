package harness

// C17 — a failing dependency is never reported as success.
// Fault enumeration: for every successful scenario met in a generated history (de-duplicated by function, side and the
// number of calls it makes to each injected dependency) the call is re-run on a clone once per (dependency kind, k)
// with the k-th call to that dependency failing; the result must be (nil output, error) and no panic.

import (
	"sort"
	"testing"
)

var c17Kinds = []string{"trie-write", "load-account", "save-account", "marshal", "unmarshal", "is-payable", "add-balance", "change-owner", "claim-rewards", "load-system-account"}

func c17Setup(seen map[string]bool) func(e *Engine, st *Stats) {
	return func(e *Engine, st *Stats) {
		e.PreExec = func(c *Call) []Clause {
			base := e.W.Clone()
			cc := *c
			r0 := base.Exec(&cc)
			if !r0.OK() {
				return nil
			}
			side := e.M.Judge(c).Side
			sig := c.Fn + "/" + side
			for _, k := range c17Kinds {
				if n := r0.Deps[k]; n > 0 {
					sig += sprintf("/%s=%d", k, n)
				}
			}
			sig += sprintf("/type=%d/retErr=%v/nargs=%d", c.CallType, c.RetErr, len(c.Args))
			if seen != nil {
				if seen[sig] {
					st.AddExtra("scenario_duplicates_skipped", 1)
					return nil
				}
				seen[sig] = true
			}
			st.AddExtra("scenarios", 1)
			st.Sample("scenario", map[string]interface{}{"call": c.String(), "dependency_calls": r0.Deps})
			var out []Clause
			for _, kind := range c17Kinds {
				n := r0.Deps[kind]
				if kind == "load-system-account" && c.Fn != refBuiltInFunctionESDTPause && c.Fn != refBuiltInFunctionESDTUnPause {
					continue // the pause lookup is fail-soft by interface design (excluded by the statement)
				}
				for k := 1; k <= n; k++ {
					w := e.W.Clone()
					w.Shards[c.Shard].fault = &Fault{Kind: kind, K: k}
					c2 := *c
					r := w.Exec(&c2)
					st.Eval(1)
					if !r.FaultHit {
						st.AddExtra("fault_not_reached", 1)
						continue
					}
					st.NT(sprintf("%s|%s|%d", sig, kind, k))
					st.Label("fault/" + kind + "/" + c.Fn)
					switch {
					case r.Panic != nil:
						out = append(out, clause([]string{"C17"}, c.Fn+"/"+kind+"/panic", "%s with call #%d to %s failing panicked: %v", c.String(), k, kind, r.Panic))
					case r.Err == nil || r.Out != nil:
						out = append(out, clause([]string{"C17"}, c.Fn+"/"+kind+"/reported-success", "%s with call #%d (of %d) to the injected dependency %s failing returned output=%v error=%v", c.String(), k, n, kind, r.Out != nil, r.Err))
					}
				}
			}
			return out
		}
	}
}

var c17Weights = baseWeights.with(Weights{"mutate": 2, "unstructured": 1, "payable": 1, "gas": 0, "epoch": 0, "changeowner": 3, "claim": 3, "setusername": 3, "handover": 4, "adduri": 3, "update": 3})

func TestC17(t *testing.T) {
	seen := map[string]bool{}
	runHistories(t, historyCfg{prop: "C17", weights: c17Weights, minSteps: 10, maxSteps: 50, setup: c17Setup(seen)})
	_ = sort.Strings
}

func init() { replayers["C17"] = replayHistory([]string{"C17"}, c17Setup(nil)) }
