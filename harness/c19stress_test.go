package harness

// Conservation stresses for the atomic types: fixed workloads (no generated input) run a few times by every process before
// the generated mixes.  They attack the "lose no update" clause with an arithmetic oracle instead of a recorded history:
// whatever the interleaving, nothing that was added may disappear and nothing may be seen that no sequential order explains.

import (
	"fmt"
	"sync"
	"testing"

	vmatomic "github.com/ElrondNetwork/elrond-vm-common/atomic"
)

// c19AtomicStress returns the first violated clause ("" when none) and the number of operations it executed.
func c19AtomicStress(rounds int) (string, string, int) {
	ops := 0
	for r := 0; r < rounds; r++ {
		// (1) Counter: G adders (net contribution known), one resetter: sum of what Reset returned + the final value = the net
		{
			var c vmatomic.Counter
			const G, K = 4, 4000
			var wg sync.WaitGroup
			net := int64(0)
			for g := 0; g < G; g++ {
				net += K*1 + K*3 - K*1 - K*2 // Increment, Add(3), Decrement, Subtract(2)
				wg.Add(1)
				go func() {
					defer wg.Done()
					for i := 0; i < K; i++ {
						c.Increment()
						c.Add(3)
						c.Decrement()
						c.Subtract(2)
					}
				}()
			}
			taken := int64(0)
			stop := make(chan struct{})
			done := make(chan struct{})
			go func() {
				defer close(done)
				for {
					select {
					case <-stop:
						return
					default:
						taken += c.Reset()
					}
				}
			}()
			wg.Wait()
			close(stop)
			<-done
			ops += G*K*4 + 1
			if got := taken + c.Get(); got != net {
				return "counter/update-lost", fmt.Sprintf("%d goroutines added a net %d to one Counter while another kept calling Reset: the values Reset returned plus the final value give %d - %d went missing", G, net, got, net-got), ops
			}
		}
		// (2) Counter: every Increment returns a value no other Increment returned, and the final value is their number
		{
			var c vmatomic.Counter
			const G, K = 4, 4000
			seen := make([][]int64, G)
			var wg sync.WaitGroup
			for g := 0; g < G; g++ {
				wg.Add(1)
				go func(g int) {
					defer wg.Done()
					for i := 0; i < K; i++ {
						seen[g] = append(seen[g], c.Increment())
					}
				}(g)
			}
			wg.Wait()
			ops += G * K
			all := map[int64]bool{}
			for g := range seen {
				for _, v := range seen[g] {
					if all[v] {
						return "counter/increment-value-returned-twice", fmt.Sprintf("two concurrent Increment calls both returned %d", v), ops
					}
					all[v] = true
				}
			}
			if c.Get() != G*K {
				return "counter/update-lost", fmt.Sprintf("%d concurrent Increment calls left the Counter at %d", G*K, c.Get()), ops
			}
		}
		// (3) Flag: Set returns the PREVIOUS value (flag.go: "sets flag and returns its previous value"), so of G concurrent
		// Set calls on an unset flag exactly one sees "was not set"
		{
			var f vmatomic.Flag
			const G, K = 4, 600
			for i := 0; i < K; i++ {
				var wg sync.WaitGroup
				wins := make([]bool, G)
				for g := 0; g < G; g++ {
					wg.Add(1)
					go func(g int) { defer wg.Done(); wins[g] = !f.Set() }(g)
				}
				wg.Wait()
				n := 0
				for _, w := range wins {
					if w {
						n++
					}
				}
				ops += G
				if n != 1 || !f.IsSet() {
					return "flag/set-not-exclusive", fmt.Sprintf("%d concurrent Set calls on an unset Flag: %d of them saw the previous value not-set (IsSet=%v afterwards)", G, n, f.IsSet()), ops
				}
				f.Unset()
			}
		}
		// (4) Flag: while the flag is set and only Toggle(true) / Set are called, no reader may see it unset (and the
		// mirror image for Toggle(false))
		for _, want := range []bool{true, false} {
			var f vmatomic.Flag
			f.Toggle(want)
			const K = 20000
			stop := make(chan struct{})
			done := make(chan struct{})
			go func() {
				defer close(done)
				for {
					select {
					case <-stop:
						return
					default:
						f.Toggle(want)
					}
				}
			}()
			bad := -1
			for i := 0; i < K; i++ {
				if f.IsSet() != want {
					bad = i
					break
				}
			}
			close(stop)
			<-done
			ops += K
			if bad >= 0 {
				return "flag/toggle-not-atomic", fmt.Sprintf("a Flag that is %v and only ever receives Toggle(%v) was read as %v (read %d)", want, want, !want, bad), ops
			}
		}
	}
	return "", "", ops
}

func replayC19Stress() (string, string) {
	for i := 0; i < 20; i++ { // schedules are sampled: repeat
		if sig, msg, _ := c19AtomicStress(3); sig != "" {
			return sig, msg
		}
	}
	return "", ""
}

var _ = testing.Short
