package harness

// The history interpreter: executes concrete operations against the world, keeps the model in step, and runs every
// monitor after every call.  Interpretation is a pure function of (WorldSpec, ops) and the code under test, which is
// what a replay file contains.

import (
	"bytes"
	"errors"
	"math/big"
	"strings"

	vmcommon "github.com/ElrondNetwork/elrond-vm-common"
	"github.com/ElrondNetwork/elrond-vm-common/parsers"
)

// ---------------------------------------------------------------- world specification

type ContractSpec struct {
	Addr   HB     `json:"addr"`
	Owner  HB     `json:"owner"`
	Reward string `json:"reward"`
}

type WorldSpec struct {
	NShards          int                          `json:"n_shards"`
	Users            []HB                         `json:"users"`
	Contracts        []ContractSpec               `json:"contracts"`
	DNS              []HB                         `json:"dns"`
	EnableNameChange bool                         `json:"enable_name_change"`
	ActivationEpoch  uint32                       `json:"activation_epoch"`
	Gas              map[string]map[string]uint64 `json:"gas"`
	// GasBeforeCreate, when set, is a schedule change the factory receives BEFORE it builds the container (an embedder
	// may subscribe the factory first): the container must then be priced by it (if it is acceptable)
	GasBeforeCreate map[string]map[string]uint64 `json:"gas_before_create,omitempty"`
	StartEpoch      uint32                       `json:"start_epoch,omitempty"` // the epoch in which the containers are built
	Tokens          []TokenInfo                  `json:"tokens"`
}

type Op struct {
	Kind  string                       `json:"kind"` // call | gas | epoch | payable | seed-handover
	Call  *Call                        `json:"call,omitempty"`
	Shard int                          `json:"shard,omitempty"`
	Gas   map[string]map[string]uint64 `json:"gas,omitempty"`
	Epoch uint32                       `json:"epoch,omitempty"`
	Addr  HB                           `json:"addr,omitempty"`
	Mode  int                          `json:"mode,omitempty"`
	Token HB                           `json:"token,omitempty"`
	Count uint64                       `json:"count,omitempty"`
	Note  string                       `json:"note,omitempty"`
}

type Trace struct {
	Spec WorldSpec `json:"world"`
	Ops  []Op      `json:"ops"`
}

func flattenGas(g map[string]map[string]uint64) map[string]uint64 {
	out := map[string]uint64{}
	for _, m := range normGas(g) {
		for k, v := range m {
			out[k] = v
		}
	}
	return out
}

type CallRecord struct {
	Call              *Call
	V                 *Verdict
	Res               *Result
	Clauses           []Clause
	Lost              bool
	MsgsBefore        int  // in-flight messages known before the call
	PreFrozenOrPaused bool // some entry the call named was frozen / its token paused in the pre-state
	NonPayableDest    bool
	Consumed          uint64
}

type keptOutput struct {
	call *Call
	res  *Result
	was  string
}

type Engine struct {
	kept   []*keptOutput // the last few outputs, as the library returned them (not copies)
	Spec   WorldSpec
	W      *World
	M      *Model
	Ops    []Op
	Lost   bool // the model could not account for a success; the history is cut
	NCalls int
	OnCall func(*CallRecord)
	// PreExec, when set, is called with the call about to be executed (used by the determinism check).
	PreExec  func(*Call) []Clause
	PostExec func(*Call, *Result) []Clause
	parser   vmcommon.ESDTTransferParser
}

func NewEngine(spec WorldSpec) *Engine {
	e := &Engine{Spec: spec, W: &World{}, M: NewModel(spec.NShards)}
	for i := 0; i < spec.NShards; i++ {
		sh, err := NewShard(ShardConfig{NShards: uint32(spec.NShards), Self: uint32(i), Gas: spec.Gas, GasBeforeCreate: spec.GasBeforeCreate, StartEpoch: spec.StartEpoch, DNS: spec.DNS, EnableNameChange: spec.EnableNameChange, ActivationEpoch: spec.ActivationEpoch})
		if err != nil {
			panic("world construction failed: " + err.Error())
		}
		e.W.Shards = append(e.W.Shards, sh)
		e.M.Shards[i].Gas = flattenGas(spec.Gas)
		e.M.Shards[i].Epoch = spec.StartEpoch
		if spec.GasBeforeCreate != nil && GasValid(spec.GasBeforeCreate) {
			e.M.Shards[i].Gas = flattenGas(spec.GasBeforeCreate)
		}
	}
	for _, d := range spec.DNS {
		e.M.DNS[string(d)] = true
	}
	e.M.NameChg = spec.EnableNameChange
	for _, t := range spec.Tokens {
		tt := t
		e.M.Tokens[t.ID] = &tt
	}
	for _, c := range spec.Contracts {
		sh := int(e.W.ShardOf(c.Addr))
		if sh >= spec.NShards {
			continue
		}
		a := e.W.Shards[sh].get(c.Addr)
		a.Owner = cp(c.Owner)
		r, _ := new(big.Int).SetString(c.Reward, 10)
		if r == nil {
			r = new(big.Int)
		}
		a.Reward = new(big.Int).Set(r)
		ma := e.M.acc(sh, c.Addr)
		ma.Owner = cp(c.Owner)
		ma.Reward = new(big.Int).Set(r)
	}
	p, _ := parsers.NewESDTTransferParser(&ProtoMarshalizer{})
	e.parser = p
	e.M.Lookup = func(shard int, addr []byte, key string) []byte {
		if a, ok := e.W.Shards[shard].Accounts[string(addr)]; ok {
			return a.Storage[key]
		}
		return nil
	}
	return e
}

// gatedFns are the functions with an activation epoch; the node dispatches a call to them only while they are active.
var gatedFns = map[string]bool{refBuiltInFunctionMultiESDTNFTTransfer: true, refBuiltInFunctionESDTNFTAddURI: true, refBuiltInFunctionESDTNFTUpdateAttributes: true}

var errInactive = errors.New("function not active in this epoch: the node does not dispatch the call")

var transferFns = map[string]bool{refBuiltInFunctionESDTTransfer: true, refBuiltInFunctionESDTNFTTransfer: true, refBuiltInFunctionMultiESDTNFTTransfer: true}

func mismatchProps(fn string, mm Mismatch) []string {
	switch mm.Class {
	case "balance":
		if transferFns[fn] {
			return []string{"C01"}
		}
		if fn == refBuiltInFunctionESDTNFTCreate {
			return []string{"C02", "C07"} // "returns and stores nonce = previous + 1": the entry has to sit under that nonce
		}
		return []string{"C02"}
	case "frozen":
		return []string{"C04", "C03"}
	case "metadata":
		if fn == refBuiltInFunctionESDTNFTCreate {
			return []string{"C08", "C07"}
		}
		return []string{"C08"}
	case "roles":
		if fn == refBuiltInFunctionESDTNFTCreateRoleTransfer {
			return []string{"C03", "C07"}
		}
		return []string{"C03"}
	case "counter":
		if fn == refBuiltInFunctionESDTNFTCreate || fn == refBuiltInFunctionESDTNFTCreateRoleTransfer {
			return []string{"C07"}
		}
		return []string{"C07", "C03"}
	case "pause":
		return []string{"C04", "C03"}
	case "kv":
		return []string{"C05"}
	case "owner", "username", "reward", "balance-field":
		return []string{"C03"}
	}
	return []string{"C15"}
}

// inFootprint is the coarse C05 frame: sender, destination (recipient or an address argument) or the system account,
// and only protocol entries of tokens named in the input / the account fields of the three account-level functions /
// the keys listed by SaveKeyValue.
func inFootprint(c *Call, v *Verdict, res *Result, account []byte, key string) bool {
	okAcc := bytes.Equal(account, c.Caller) || bytes.Equal(account, c.Rcv) || bytes.Equal(account, refSystemAccount)
	for _, a := range c.Args {
		if len(a) == len(c.Caller) && bytes.Equal(account, a) {
			okAcc = true
		}
	}
	if !okAcc {
		return false
	}
	switch c.Fn {
	case refBuiltInFunctionChangeOwnerAddress:
		return key == "#owner"
	case refBuiltInFunctionClaimDeveloperRewards:
		return key == "#reward" || key == "#balance"
	case refBuiltInFunctionSetUserName:
		return key == "#username"
	case refBuiltInFunctionSaveKeyValue:
		for i := 0; i+1 < len(c.Args); i += 2 {
			if key == string(c.Args[i]) {
				return !strings.HasPrefix(key, refProtectedPrefix)
			}
		}
		return false
	}
	if strings.HasPrefix(key, "#") {
		return false
	}
	named := v.Named
	if len(named) == 0 && len(c.Args) > 0 {
		for _, a := range c.Args {
			named = append(named, a)
		}
	}
	for _, t := range named {
		ts := string(t)
		if key == pfxRole+ts || key == pfxNonce+ts {
			return true
		}
		if strings.HasPrefix(key, pfxESDT+ts) && len(key)-len(pfxESDT+ts) <= 8 {
			if len(v.Suffixes) == 0 || bytes.Equal(account, refSystemAccount) {
				return true
			}
			// the input names (token, nonce) pairs: only exactly those balance keys belong to its footprint
			for _, sfx := range v.Suffixes {
				if key == pfxESDT+sfx {
					return true
				}
			}
		}
	}
	return false
}

func sumGasLimits(out *vmcommon.VMOutput) *big.Int {
	total := new(big.Int)
	for _, oa := range out.OutputAccounts {
		if oa == nil {
			continue
		}
		for _, ot := range oa.OutputTransfers {
			total.Add(total, new(big.Int).SetUint64(ot.GasLimit))
		}
	}
	return total
}

// allocCeiling is what any call may allocate; allocBound adds what the ACTUAL size of a call's input and of the stored
// values it can touch explains (the library builds its output data by repeated string concatenation, which is
// quadratic in the number of arguments really present: 256 listed SFT entries of 365 bytes allocate 78 MB).  What the
// statement forbids is allocation driven by a NUMBER an argument encodes, which no actual size bounds.
const allocCeiling = 8 << 20

func allocBound(c *Call, maxStored int) uint64 {
	n := uint64(len(c.Args) + 2)
	return allocCeiling + 4*n*(uint64(inputSize(c))+(n/3+1)*uint64(maxStored)+64)
}

func (s *Shard) maxStoredValue() int {
	m := 0
	for _, a := range s.Accounts {
		for _, v := range a.Storage {
			if len(v) > m {
				m = len(v)
			}
		}
	}
	return m
}

// ExecCall runs one call with every monitor.  The returned clauses are all violations found, for all properties.
func (e *Engine) ExecCall(c *Call) *CallRecord {
	rec := &CallRecord{Call: c}
	m := e.M
	rec.MsgsBefore = len(m.Msgs)
	if c.MsgID != 0 {
		if msg := m.msg(c.MsgID); msg == nil || (msg.Done && !c.Redeliver) {
			rec.V = &Verdict{}
			rec.Res = &Result{Err: errWire}
			return rec // stale delivery (can appear while a trace is being shrunk): skipped
		}
	}
	if gatedFns[c.Fn] && m.Shards[c.Shard].Epoch < e.Spec.ActivationEpoch {
		// not dispatched (an in-flight message simply stays pending until the function is active again)
		rec.V = &Verdict{}
		rec.Res = &Result{Err: errInactive}
		return rec
	}
	v := m.Judge(c)
	rec.V = v
	add := func(cl ...Clause) { rec.Clauses = append(rec.Clauses, cl...) }

	// pre-state facts for the generic monitors
	pre := m.Shards[c.Shard]
	preFrozen := func(addr []byte, sfx string) bool { return m.acc(c.Shard, addr).entry(sfx).Frozen }
	prePaused := map[string]bool{}
	for t, p := range pre.PauseFlag {
		prePaused[t] = p
	}
	prePayable := map[string]int{}
	for a, p := range pre.Payable {
		prePayable[a] = p
	}
	preFrozenSet := map[string]bool{}
	for addr, a := range pre.Accounts {
		for sfx, en := range a.Entries {
			if en.Frozen {
				preFrozenSet[addr+"\x00"+sfx] = true
			}
		}
	}
	_ = preFrozen

	if e.PreExec != nil {
		add(e.PreExec(c)...)
	}
	maxStored := 0
	if len(c.Args) > 32 {
		maxStored = e.W.Shards[c.Shard].maxStoredValue()
	}
	res := e.W.Exec(c)
	rec.Res = res
	e.NCalls++
	// what an earlier call returned (output transfers' data above all: the in-flight message) belongs to the node from
	// then on; a later call of the same function object must not reach into it
	for _, k := range e.kept {
		if now := canonOutput(k.res); now != k.was {
			props := []string{"C13", "C10"}
			if transferFns[k.call.Fn] {
				props = append(props, "C01") // the altered message is the tokens in flight
			}
			add(clause(props, k.call.Fn+"/earlier-output-changed-by-a-later-call", "the output returned by %s read\n  %s\nand after the later call %s it reads\n  %s", k.call.String(), k.was, c.String(), now))
			k.was = now
		}
	}
	if res.OK() {
		e.kept = append(e.kept, &keptOutput{call: c, res: res, was: canonOutput(res)})
		if len(e.kept) > 6 {
			e.kept = e.kept[1:]
		}
	}
	if e.PostExec != nil {
		add(e.PostExec(c, res)...)
	}

	// ---- C11: totality
	if res.Panic != nil {
		add(clause([]string{"C11"}, c.Fn+"/panic", "%s panicked: %v\n%s", c.String(), res.Panic, firstLines(res.Stack, 14)))
	} else {
		okShape := (res.Out != nil && res.Out.ReturnCode == vmcommon.Ok && res.Err == nil) || (res.Out == nil && res.Err != nil)
		if !okShape {
			rc := "nil output"
			if res.Out != nil {
				rc = sprintf("return code %v", res.Out.ReturnCode)
			}
			add(clause([]string{"C11"}, c.Fn+"/result-shape", "%s returned %s together with error %v", c.String(), rc, res.Err))
		}
	}
	if res.Alloc > allocCeiling && res.Alloc > allocBound(c, maxStored) {
		add(clause([]string{"C11"}, c.Fn+"/allocation", "%s allocated %d bytes (input is %d bytes in %d arguments, largest stored value %d bytes)",
			c.String(), res.Alloc, inputSize(c), len(c.Args), maxStored))
	}
	// ---- C13: the input is not modified
	if res.InputMut != "" {
		add(clause([]string{"C13"}, c.Fn+"/input-modified", "%s modified its input: %s", c.String(), res.InputMut))
	}
	if res.OtherShardsTouched {
		add(clause([]string{"C05"}, c.Fn+"/other-shard-touched", "%s changed state outside the executing shard", c.String()))
	}

	if !res.OK() {
		if res.Panic == nil && v.MustSucceed != nil {
			cl := *v.MustSucceed
			cl.Msg += sprintf(" (%s failed with: %v)", c.String(), res.Err)
			add(cl)
		}
		e.afterFailedDelivery(c, rec)
		return rec
	}
	out := res.Out

	// ---- C06: no gas is created
	provided := new(big.Int).SetUint64(c.Gas)
	spent := new(big.Int).Add(new(big.Int).SetUint64(out.GasRemaining), sumGasLimits(out))
	if spent.Cmp(provided) > 0 {
		add(clause([]string{"C06"}, c.Fn+"/gas-created", "%s: GasRemaining %d + forwarded %v exceeds GasProvided %d", c.String(), out.GasRemaining, sumGasLimits(out), c.Gas))
	} else {
		rec.Consumed = new(big.Int).Sub(provided, spent).Uint64()
	}

	// ---- must-fail reasons from the statements
	for _, cl := range v.MustFail {
		cl.Msg = sprintf("%s succeeded although: %s", c.String(), cl.Msg)
		add(cl)
	}

	// ---- generic diff monitors (they need only the pre-state flags, not the exact model)
	for _, d := range res.Diff {
		acct := []byte(d.Account)
		isSys := bytes.Equal(acct, refSystemAccount)
		if !inFootprint(c, v, res, acct, d.Key) {
			add(clause([]string{"C05"}, c.Fn+"/outside-footprint", "%s changed %s key %q, which is neither an entry of a token named in its input nor in the sender, destination or system account", c.String(), shortAddr(acct), d.Key))
		}
		switch {
		case strings.HasPrefix(d.Key, pfxESDT) && !isSys:
			sfx := d.Key[len(pfxESDT):]
			// C04: a frozen entry / an entry of a paused token does not change
			tokInfo, _ := m.tokenOfSuffix(sfx)
			frozen := preFrozenSet[d.Account+"\x00"+sfx]
			paused := tokInfo != nil && prePaused[tokInfo.ID]
			if (frozen || paused) && !isESDTSC(acct) {
				rec.PreFrozenOrPaused = true
				exempt := c.RetErr || (isESDTSC(c.Caller) && (c.Fn == refBuiltInFunctionESDTFreeze || c.Fn == refBuiltInFunctionESDTUnFreeze || c.Fn == refBuiltInFunctionESDTWipe))
				if !exempt {
					add(clause(pC04, c.Fn+"/changed-while-frozen-or-paused", "%s changed %s entry %q while frozen=%v paused=%v", c.String(), shortAddr(acct), sfx, frozen, paused))
				}
			}
			// C03: the frozen bit changes only through the system contract
			if ot, err1 := decodeOrZero(d.Old); err1 == nil {
				if nt, err2 := decodeOrZero(d.New); err2 == nil {
					if isFrozenProps(ot.Properties) != isFrozenProps(nt.Properties) && !isESDTSC(c.Caller) {
						add(clause(pC03, c.Fn+"/freeze-state-changed", "%s by %s changed the frozen flag of %s entry %q", c.String(), shortAddr(c.Caller), shortAddr(acct), sfx))
					}
					// C09: a credit to a non-payable account needs an exemption
					if transferFns[c.Fn] && valOf(nt).Cmp(valOf(ot)) > 0 && prePayable[d.Account] != 0 {
						rec.NonPayableDest = true
						if !creditExempt(c, v) {
							add(clause(pC09, c.Fn+"/credited-non-payable", "%s credited %s (oracle mode %d) without an attached call, callback/transfer-and-execute call type or system-contract origin", c.String(), shortAddr(acct), prePayable[d.Account]))
						}
					}
				}
			}
		case strings.HasPrefix(d.Key, pfxESDT) && isSys:
			if !isESDTSC(c.Caller) {
				add(clause(pC03, c.Fn+"/pause-state-changed", "%s by %s changed the pause entry %q", c.String(), shortAddr(c.Caller), d.Key))
			}
		case strings.HasPrefix(d.Key, pfxRole):
			if !isESDTSC(c.Caller) && !(c.Fn == refBuiltInFunctionESDTNFTCreateRoleTransfer && c.MsgID != 0) {
				add(clause(pC03, c.Fn+"/roles-changed", "%s by %s changed the role list %q of %s", c.String(), shortAddr(c.Caller), d.Key, shortAddr(acct)))
			}
		case strings.HasPrefix(d.Key, pfxNonce):
			okCreate := c.Fn == refBuiltInFunctionESDTNFTCreate && bytes.Equal(acct, c.Caller)
			if !okCreate && !isESDTSC(c.Caller) && !(c.Fn == refBuiltInFunctionESDTNFTCreateRoleTransfer && c.MsgID != 0) {
				add(clause([]string{"C03", "C07"}, c.Fn+"/counter-changed", "%s by %s changed the nonce counter %q of %s", c.String(), shortAddr(c.Caller), d.Key, shortAddr(acct)))
			}
		}
	}

	// ---- C05: what the node applies from the output accounts besides the transfers, and which account records exist
	for key, oa := range out.OutputAccounts {
		if oa == nil {
			continue
		}
		var extra []string
		if oa.Nonce != 0 {
			extra = append(extra, sprintf("Nonce=%d (the node sets the ACCOUNT nonce from it)", oa.Nonce))
		}
		if len(oa.StorageUpdates) > 0 {
			extra = append(extra, sprintf("%d storage updates", len(oa.StorageUpdates)))
		}
		if len(oa.Code) > 0 || len(oa.CodeMetadata) > 0 || len(oa.CodeDeployerAddress) > 0 {
			extra = append(extra, "code / code metadata / deployer")
		}
		if oa.Balance != nil && oa.Balance.Sign() != 0 {
			extra = append(extra, sprintf("Balance=%v", oa.Balance))
		}
		if oa.BalanceDelta != nil && oa.BalanceDelta.Sign() != 0 && c.Fn != refBuiltInFunctionClaimDeveloperRewards {
			extra = append(extra, sprintf("BalanceDelta=%v", oa.BalanceDelta))
		}
		if !bytes.Equal([]byte(key), oa.Address) {
			extra = append(extra, sprintf("listed under %x but addressed to %x", key, oa.Address))
		}
		if len(extra) > 0 {
			add(clause([]string{"C05"}, c.Fn+"/output-account-carries-state", "%s returned an output account for %s that carries %s: the node applies it to that account", c.String(), shortAddr(oa.Address), strings.Join(extra, ", ")))
		}
	}
	for addr := range e.W.Shards[c.Shard].Accounts {
		if a := []byte(addr); computeShard(a, uint32(e.M.NShards)) != uint32(c.Shard) && !refIsSystemAccount(a) {
			add(clause([]string{"C05"}, c.Fn+"/account-record-of-another-shard", "after %s this shard's accounts database holds a record for %s, which lives on another shard", c.String(), shortAddr(a)))
		}
	}

	// ---- C10/C12: every emitted data string parses to what it encodes
	for _, oa := range out.OutputAccounts {
		if oa == nil || attachedFnOutsideDomain(c) {
			// a transfer's attached function name is copied verbatim into the data string; an empty name or one that
			// contains '@' cannot round-trip by construction and is outside the stated domain (DESIGN section 3)
			continue
		}
		for _, ot := range oa.OutputTransfers {
			if len(ot.Data) == 0 {
				continue
			}
			rfn, rargs, rerr := TxDecode(string(ot.Data))
			pfn, pargs, perr := parsers.NewCallArgsParser().ParseData(string(ot.Data))
			if rerr != nil || perr != nil || rfn != pfn || !argsEqual(rargs, pargs) {
				add(clause([]string{"C10", "C12"}, c.Fn+"/emitted-data-unparseable", "%s emitted %q: call-args parser gives (%q, %x, %v), the format says (%q, %x, %v)", c.String(), ot.Data, pfn, pargs, perr, rfn, rargs, rerr))
			}
		}
	}

	if !v.Known || v.Apply == nil {
		rec.Lost = true
		e.Lost = true
		return rec
	}

	// ---- C10(c): the transfer parser's report equals what the ledger is about to move
	if transferFns[c.Fn] {
		add(e.parserAgreement(c, v, args2bytes(c.Args))...)
		if !argsEqual(res.ArgsAfter, args2bytes(c.Args)) {
			// the node parses the SAME input structure after the function ran
			add(e.parserAgreement(c, v, res.ArgsAfter)...)
		}
	}

	add(attachedCallCheck(e.M, c, res)...)
	nMsgs := len(m.Msgs)
	add(v.Apply(res)...)
	if len(m.Msgs) == nMsgs {
		e.genericContinuation(c, res)
	}

	// ---- C16 / C06: the charge
	if v.Charge != nil && res.Out != nil && spent.Cmp(provided) <= 0 {
		want := *v.Charge
		if c.Gas >= want {
			ok := rec.Consumed == want
			for _, alt := range v.ChargeAlt {
				if rec.Consumed == alt {
					ok = true
				}
			}
			if b := v.ChargeBand; b != nil && b[1] > 0 && rec.Consumed >= b[0] && (rec.Consumed-b[0])%b[1] == 0 && (rec.Consumed-b[0])/b[1] <= b[2] {
				ok = true
			}
			if !ok {
				add(clause([]string{"C16"}, c.Fn+"/charge", "%s consumed %d gas; its own schedule entry plus per-byte components give %d (alternatives %v) under the schedule in force", c.String(), rec.Consumed, want, v.ChargeAlt))
			}
		} else {
			minAlt := want
			for _, alt := range v.ChargeAlt {
				if alt < minAlt {
					minAlt = alt
				}
			}
			if c.Gas < minAlt && rec.Consumed != c.Gas {
				add(clause([]string{"C06"}, c.Fn+"/undercharged", "%s succeeded with GasProvided %d below its charge %d and did not consume all of it (consumed %d)", c.String(), c.Gas, want, rec.Consumed))
			}
		}
	}

	// ---- exactness: the ledger equals the model
	for _, mm := range m.CompareShard(e.W, c.Shard) {
		props := mismatchProps(c.Fn, mm)
		add(Clause{Props: props, Sig: c.Fn + "/" + v.Side + "/state-" + mm.Class, Msg: sprintf("after %s: %s", c.String(), mm.Msg)})
	}
	add(m.WellFormed(e.W, c.Shard, res.Diff)...)
	add(m.Conservation(e.W)...)
	return rec
}

// attachedCallCheck: when a transfer that carries a contract call credits a contract on the executing shard, the call
// continues as an output transfer to that contract whose data encodes exactly the attached function and arguments.
func attachedCallCheck(m *Model, c *Call, res *Result) []Clause {
	if !transferFns[c.Fn] || attachedFnOutsideDomain(c) {
		return nil
	}
	args := args2bytes(c.Args)
	var dest []byte
	idx := -1
	switch c.Fn {
	case refBuiltInFunctionESDTTransfer:
		dest, idx = c.Rcv, 2
	case refBuiltInFunctionESDTNFTTransfer:
		idx = 4
		if bytes.Equal(c.Caller, c.Rcv) {
			dest = args[3]
		} else {
			dest = c.Rcv
		}
	case refBuiltInFunctionMultiESDTNFTTransfer:
		if bytes.Equal(c.Caller, c.Rcv) {
			dest, idx = args[0], int(3*low64(args[1])+2)
		} else {
			dest, idx = c.Rcv, int(3*low64(args[0])+1)
		}
	}
	if idx < 0 || idx >= len(args) || len(dest) != 32 || !m.local(dest, c.Shard) || !refIsSC(dest) || c.RetErr {
		return nil
	}
	wantFn, wantArgs := string(args[idx]), args[idx+1:]
	ot := firstTransfer(res, dest)
	if ot == nil {
		return []Clause{clause([]string{"C10", "C12"}, c.Fn+"/attached-call-lost", "%s carries the contract call %q for contract %s on this shard but emitted no output transfer for it", c.String(), wantFn, shortAddr(dest))}
	}
	fn, got, err := TxDecode(string(ot.Data))
	if err != nil || fn != wantFn || !argsEqual(got, wantArgs) {
		return []Clause{clause([]string{"C10", "C12"}, c.Fn+"/attached-call-content", "%s carries the contract call %q %x but the emitted data is %q", c.String(), wantFn, wantArgs, ot.Data)}
	}
	return nil
}

// attachedFnOutsideDomain reports whether the call carries an attached-call function name that is empty or contains '@'.
func attachedFnOutsideDomain(c *Call) bool {
	args := args2bytes(c.Args)
	idx := -1
	switch c.Fn {
	case refBuiltInFunctionESDTTransfer:
		idx = 2
	case refBuiltInFunctionESDTNFTTransfer:
		idx = 4
	case refBuiltInFunctionMultiESDTNFTTransfer:
		if bytes.Equal(c.Caller, c.Rcv) {
			if len(args) >= 2 {
				idx = int(3*low64(args[1]) + 2)
			}
		} else if len(args) >= 1 {
			idx = int(3*low64(args[0]) + 1)
		}
	}
	if idx < 0 || idx >= len(args) {
		return false
	}
	return len(args[idx]) == 0 || bytes.IndexByte(args[idx], '@') >= 0
}

func creditExempt(c *Call, v *Verdict) bool {
	if c.RetErr || isESDTSC(c.Caller) || c.CallType == int(vmcommon.AsynchronousCallBack) || c.CallType == int(vmcommon.ESDTTransferAndExecute) {
		return true
	}
	args := args2bytes(c.Args)
	switch c.Fn {
	case refBuiltInFunctionESDTTransfer:
		return len(args) > 2
	case refBuiltInFunctionESDTNFTTransfer:
		return len(args) > 4
	case refBuiltInFunctionMultiESDTNFTTransfer:
		if bytes.Equal(c.Caller, c.Rcv) {
			return len(args) >= 2 && uint64(len(args)) > 3*low64(args[1])+2
		}
		return len(args) >= 1 && uint64(len(args)) > 3*low64(args[0])+1
	}
	return false
}

func decodeOrZero(b []byte) (*RefToken, error) {
	if len(b) == 0 {
		return &RefToken{Value: new(big.Int)}, nil
	}
	return RefDecodeToken(b)
}

func valOf(t *RefToken) *big.Int {
	if t.Value == nil {
		return new(big.Int)
	}
	return t.Value
}

func inputSize(c *Call) int {
	n := 0
	for _, a := range c.Args {
		n += len(a)
	}
	return n
}

func firstLines(s string, n int) string {
	lines := strings.Split(s, "\n")
	var keep []string
	for _, l := range lines {
		if strings.Contains(l, "elrond-vm-common") || strings.Contains(l, "panic") {
			keep = append(keep, strings.TrimSpace(l))
		}
		if len(keep) >= n {
			break
		}
	}
	return strings.Join(keep, "\n")
}

// parserAgreement compares ParseESDTTransfers on the very input the function is executing with the model's items.
func (e *Engine) parserAgreement(c *Call, v *Verdict, parseArgs [][]byte) []Clause {
	var out []Clause
	var items []Item
	var wantRcv []byte
	args := args2bytes(c.Args)
	var callFn string
	var callArgs [][]byte
	tail := func(min int) {
		if len(args) > min {
			callFn = string(args[min])
			callArgs = args[min+1:]
		}
	}
	switch c.Fn {
	case refBuiltInFunctionESDTTransfer:
		items = []Item{{Token: args[0], Qty: bigOf(args[1])}}
		wantRcv = c.Rcv
		tail(2)
	case refBuiltInFunctionESDTNFTTransfer:
		if bytes.Equal(c.Caller, c.Rcv) {
			items, wantRcv = v.msgItems, args[3]
		} else if msg := e.M.msg(c.MsgID); msg != nil {
			items, wantRcv = msg.Items, c.Rcv
		}
		tail(4)
	case refBuiltInFunctionMultiESDTNFTTransfer:
		if bytes.Equal(c.Caller, c.Rcv) {
			items, wantRcv = v.msgItems, args[0]
			tail(2 + 3*len(items))
		} else if msg := e.M.msg(c.MsgID); msg != nil {
			items, wantRcv = msg.Items, c.Rcv
			tail(1 + 3*len(items))
		}
	}
	if items == nil {
		return nil
	}
	var parsed *vmcommon.ParsedESDTTransfers
	var err error
	if p := noPanic(func() { parsed, err = e.parser.ParseESDTTransfers(c.Caller, c.Rcv, c.Fn, parseArgs) }); p != nil {
		return []Clause{clause([]string{"C10", "C12"}, c.Fn+"/parser-panic", "ParseESDTTransfers panicked on %s: %v", c.String(), p)}
	}
	bad := func(f string, a ...interface{}) {
		out = append(out, clause(pC10, c.Fn+"/"+v.Side+"/parser-disagrees", "on %s the transfer parser %s", c.String(), sprintf(f, a...)))
	}
	if err != nil || parsed == nil {
		bad("fails with %v although the ledger accepts the call", err)
		return out
	}
	if !bytes.Equal(parsed.RcvAddr, wantRcv) {
		bad("reports receiver %s, the ledger credits/addresses %s", shortAddr(parsed.RcvAddr), shortAddr(wantRcv))
	}
	if len(parsed.ESDTTransfers) != len(items) {
		bad("reports %d transfers, the ledger moves %d", len(parsed.ESDTTransfers), len(items))
		return out
	}
	for i, it := range items {
		p := parsed.ESDTTransfers[i]
		if p == nil || p.ESDTValue == nil || !bytes.Equal(p.ESDTTokenName, it.Token) || p.ESDTTokenNonce != it.Nonce || p.ESDTValue.Cmp(it.Qty) != 0 {
			bad("reports item %d as %+v, the ledger moves token %q nonce %d quantity %v", i, p, it.Token, it.Nonce, it.Qty)
		}
	}
	if parsed.CallFunction != callFn || !argsEqual(parsed.CallArgs, callArgs) {
		bad("reports call %q %x, the input carries %q %x", parsed.CallFunction, parsed.CallArgs, callFn, callArgs)
	}
	return out
}

// genericContinuation is N3 in general: whatever succeeds on the sender's shard and is addressed to another shard goes
// on there - a user's own transaction as it is, a contract's call through the output transfer the function emitted. The
// model creates its own messages for the operations it expects to travel; anything else that travels is recorded here
// so that it IS executed on the destination shard (where the model expects it to have no effect).
func (e *Engine) genericContinuation(c *Call, res *Result) {
	m := e.M
	if c.MsgID != 0 || !m.local(c.Caller, c.Shard) {
		return
	}
	dstShard := m.shardOf(c.Rcv)
	if int(dstShard) < m.NShards && int(dstShard) != c.Shard && !bytes.Equal(c.Caller, c.Rcv) && !refIsSC(c.Caller) && !refIsSystemAccount(c.Rcv) {
		m.newMsg(&Msg{Kind: "generic", Fn: c.Fn, Caller: cp(c.Caller), Rcv: cp(c.Rcv), Args: args2bytes(c.Args), Gas: c.Gas, CallType: c.CallType})
		return
	}
	if res.Out == nil {
		return
	}
	for key, oa := range res.Out.OutputAccounts {
		if oa == nil || int(m.shardOf([]byte(key))) >= m.NShards || int(m.shardOf([]byte(key))) == c.Shard {
			continue
		}
		for _, ot := range oa.OutputTransfers {
			fn, args, err := TxDecode(string(ot.Data))
			if err != nil || !isBuiltInName(fn) {
				continue
			}
			m.newMsg(&Msg{Kind: "generic", Fn: fn, Caller: cp(c.Caller), Rcv: []byte(key), Args: args, Gas: ot.GasLimit, GasLocked: ot.GasLocked, CallType: int(ot.CallType)})
		}
	}
}

func isBuiltInName(fn string) bool {
	for _, n := range allFunctionNames {
		if n == fn {
			return true
		}
	}
	return false
}

// afterFailedDelivery applies N5: a failed transfer delivery becomes a refund to the original sender; other failed
// messages are dropped.
func (e *Engine) afterFailedDelivery(c *Call, rec *CallRecord) {
	msg := e.M.msg(c.MsgID)
	if msg == nil || msg.Done {
		return
	}
	msg.Done = true
	if msg.Kind != "transfer" {
		return
	}
	if msg.Refund {
		if len(rec.V.MustFail) > 0 {
			// the one corner where two statements meet: a refund into an account that meanwhile holds a different hash
			// under the same key must be rejected (C08); the returned tokens are then gone, which is not a C01 finding
			for _, it := range msg.Items {
				e.M.addSupply(it.Suffix, new(big.Int).Neg(it.Qty))
			}
			return
		}
		rec.Clauses = append(rec.Clauses, clause(pC01, c.Fn+"/refund-refused", "the return-after-error refund %s was refused: the tokens are lost (%v)", c.String(), rec.Res.Err))
		for _, it := range msg.Items {
			e.M.addSupply(it.Suffix, new(big.Int).Neg(it.Qty))
		}
		return
	}
	// transfer arguments without the attached call, plus one trailing non-empty argument (the return code)
	var args [][]byte
	switch msg.Fn {
	case refBuiltInFunctionESDTTransfer:
		args = append(args, msg.Args[:2]...)
	case refBuiltInFunctionESDTNFTTransfer:
		args = append(args, msg.Args[:4]...)
	default:
		args = append(args, msg.Args[:1+3*len(msg.Items)]...)
	}
	args = append(args, []byte("user error"))
	e.M.newMsg(&Msg{Kind: "transfer", Fn: msg.Fn, Caller: cp(msg.Rcv), Rcv: cp(msg.Sender), Sender: cp(msg.Rcv), Args: args, RetErr: true, Refund: true, Items: msg.Items, Gas: msg.Gas})
}

// DeliveryCall turns an in-flight message into the concrete destination-side call.
func (e *Engine) DeliveryCall(msg *Msg) *Call {
	c := &Call{Shard: int(e.M.shardOf(msg.Rcv)), Fn: msg.Fn, Caller: cp(msg.Caller), Rcv: cp(msg.Rcv), Gas: msg.Gas, GasLocked: msg.GasLocked, CallType: msg.CallType, RetErr: msg.RetErr, MsgID: msg.ID}
	for _, a := range msg.Args {
		c.Args = append(c.Args, cp(a))
	}
	return c
}

// Apply executes one operation of a trace.
func (e *Engine) Apply(op Op) *CallRecord {
	e.Ops = append(e.Ops, op)
	switch op.Kind {
	case "call":
		rec := e.ExecCall(op.Call)
		if e.OnCall != nil {
			e.OnCall(rec)
		}
		return rec
	case "gas":
		sh := e.W.Shards[op.Shard]
		sh.GasScheduleChange(op.Gas)
		if GasValid(op.Gas) {
			e.M.Shards[op.Shard].Gas = flattenGas(op.Gas)
		}
	case "epoch":
		// epochs are chain-wide: every shard is told
		for i := range e.W.Shards {
			e.W.Shards[i].ConfirmEpoch(op.Epoch)
			e.M.Shards[i].Epoch = op.Epoch
		}
	case "replace":
		// a new instance of the named function takes the place of the factory's in the container (no effect on the model)
		if err := e.W.Shards[op.Shard].ReplaceFn(string(op.Token)); err != nil {
			panic("replace " + string(op.Token) + ": " + err.Error())
		}
	case "payable":
		e.W.Shards[op.Shard].Payable[string(op.Addr)] = op.Mode
		e.M.Shards[op.Shard].Payable[string(op.Addr)] = op.Mode
	case "plant":
		// the one hand-written ledger state (DESIGN section 3): an account holds a DIFFERENT hash under an existing
		// (token, nonce) - needed for C08's "a transfer into an account that holds a different hash ... is rejected"
		tok, nonce := []byte(op.Token), op.Count
		sfx := suffixOf(tok, nonce)
		sh := int(e.M.shardOf(op.Addr))
		qty := big.NewInt(int64(op.Mode))
		meta := &RefMeta{Nonce: nonce, Name: []byte("planted"), Creator: cp(op.Addr), Hash: []byte("planted-other-hash"), URIs: [][]byte{[]byte("p")}}
		e.W.Shards[sh].get(op.Addr).Storage[pfxESDT+sfx] = RefEncodeToken(&RefToken{Type: uint32(vmcommon.NonFungible), Value: qty, Meta: meta})
		e.M.acc(sh, op.Addr).setEntry(sfx, &Entry{Value: new(big.Int).Set(qty), Meta: meta})
		e.M.addSupply(sfx, qty)
	case "seed-handover":
		// a hand-over message for a token whose previous creator is not part of the modelled universe (its counter is
		// whatever that creator reached): op.Call carries caller (old holder), recipient (new holder) and [token, counter]
		tok := []byte(op.Call.Args[0])
		cnt := low64(op.Call.Args[1])
		if e.M.Issued[string(tok)] < cnt {
			e.M.Issued[string(tok)] = cnt
		}
		e.M.newMsg(&Msg{Kind: "handover", Fn: refBuiltInFunctionESDTNFTCreateRoleTransfer, Caller: cp(op.Call.Caller), Rcv: cp(op.Call.Rcv),
			Args: args2bytes(op.Call.Args), Token: tok, Counter: cnt})
	}
	return nil
}
