package harness

// C13 — execution is deterministic and does not modify its input.
// Every call of a history is executed three times from equal states: on the history's world, on a deep clone with a
// fresh container, and on a deep clone whose (fresh) container first executed a batch of earlier calls of the same
// history (state then restored) - the latter two on other goroutines.  The canonical serialisations of result and
// resulting ledger must be byte-identical.  The input-intact monitor (arguments laid out in one backing array with
// poisoned spare capacity) runs in the engine for every call.

import (
	"sync"
	"testing"
)

func c13Setup(e *Engine, st *Stats) {
	var want [2]string
	var wantState [2]string
	e.PreExec = func(c *Call) []Clause {
		w1 := e.W.CloneFresh() // container constructed under the configuration now in force, never reconfigured
		w2 := e.W.Clone()      // container that lived through the same reconfigurations, then served earlier calls
		// w2's function objects first serve earlier calls of this history; the ledger is restored afterwards
		snaps := make([]snapshot, len(w2.Shards))
		for i, s := range w2.Shards {
			snaps[i] = s.snapshot()
		}
		n := 0
		for i := len(e.Ops) - 1; i >= 0 && n < 5; i-- {
			if op := e.Ops[i]; op.Kind == "call" && op.Call != c {
				cc := *op.Call
				w2.Exec(&cc)
				n++
			}
		}
		for i, s := range w2.Shards {
			s.restore(snaps[i])
		}
		var wg sync.WaitGroup
		for i, w := range []*World{w1, w2} {
			wg.Add(1)
			go func(i int, w *World) {
				defer wg.Done()
				cc := *c
				r := w.Exec(&cc)
				want[i] = canonOutput(r)
				wantState[i] = canonShard(w.Shards[c.Shard])
			}(i, w)
		}
		wg.Wait()
		return nil
	}
	e.PostExec = func(c *Call, res *Result) []Clause {
		got, gotState := canonOutput(res), canonShard(e.W.Shards[c.Shard])
		names := []string{"a clone whose fresh container was constructed under the schedule and epoch now in force", "a clone whose container served earlier calls"}
		for i := range want {
			if got != want[i] {
				return []Clause{clause([]string{"C13"}, c.Fn+"/result-differs", "%s: the result differs between the history's world and %s:\n  %s\n  %s", c.String(), names[i], got, want[i])}
			}
			if gotState != wantState[i] {
				return []Clause{clause([]string{"C13"}, c.Fn+"/state-differs", "%s: the resulting ledger differs between the history's world and %s:\n%s\n---\n%s", c.String(), names[i], gotState, wantState[i])}
			}
		}
		return nil
	}
}

var c13Weights = baseWeights.with(Weights{"mutate": 10, "unstructured": 6, "setrole-repeat": 3})

func TestC13(t *testing.T) {
	runHistories(t, historyCfg{prop: "C13", weights: c13Weights, minSteps: 10, maxSteps: 50, setup: c13Setup, nontrivial: func(rec *CallRecord, g *Gen) (string, bool) {
		if !rec.Res.OK() {
			return "", false
		}
		emits := false
		for _, oa := range rec.Res.Out.OutputAccounts {
			if oa != nil && len(oa.OutputTransfers) > 0 {
				emits = true
			}
		}
		if len(rec.Res.Diff) == 0 && !emits {
			return "", false
		}
		return sprintf("repeated|%s|%s|emits=%v|logs=%d|%s", rec.Call.Fn, rec.V.Side, emits, len(rec.Res.Out.Logs), shapeKey(g)), true
	}})
}

func init() { replayers["C13"] = replayHistory([]string{"C13"}, c13Setup) }
