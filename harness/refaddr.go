package harness

// Reference address predicates, from the documented address format - written out with literal numbers so that neither
// the library's classifiers nor its constants are trusted by the node side of the harness (shard computation, "is the
// caller a contract") or by the reference model: a contract address is longer than 10 bytes and starts with 10-2 = 8
// zero bytes (the all-zero address counts); a metachain contract additionally has the 15 bytes after the 10-byte
// identifier zero and an all-0xff, non-empty shard identifier; the system account is recognised by its first 30 bytes,
// which are 0xff.
const (
	refSCPrefixLen = 10
	refVMTypeLen   = 2
)

func allEq(b []byte, v byte) bool {
	for _, x := range b {
		if x != v {
			return false
		}
	}
	return true
}

func refIsSC(a []byte) bool {
	if len(a) <= refSCPrefixLen {
		return false
	}
	return allEq(a[:refSCPrefixLen-refVMTypeLen], 0)
}

func refIsMetaID(id []byte) bool { return len(id) > 0 && allEq(id, 0xff) }

func refIsSCOnMeta(id, a []byte) bool {
	const metaZeros = 15
	if len(a) <= refSCPrefixLen+metaZeros {
		return false
	}
	return refIsMetaID(id) && refIsSC(a) && allEq(a[refSCPrefixLen:refSCPrefixLen+metaZeros], 0)
}

func refIsSystemAccount(a []byte) bool {
	return len(a) >= 30 && allEq(a[:30], 0xff)
}

// Protocol constants the statements (or the node) fix, as literals - the library's exported constants are not trusted.
const (
	refProtectedPrefix     = "ELROND"
	refMaxRoyalty          = 10000
	refMetachainShard      = uint32(0xFFFFFFFF)
	refMinArgsESDTTransfer = 2
	refMinArgsNFTTransfer  = 4
)

var (
	refSystemAccount = rep32(0xff)
	// the ESDT system contract: 000000000000000000010000000000000000000000000000000000000002ffff
	refESDTSC = []byte{0, 0, 0, 0, 0, 0, 0, 0, 0, 1, 0, 0, 0, 0, 0, 0, 0, 0, 0, 0, 0, 0, 0, 0, 0, 0, 0, 0, 0, 2, 255, 255}
)

func rep32(b byte) []byte {
	out := make([]byte, 32)
	for i := range out {
		out[i] = b
	}
	return out
}

// protocolFunctionNames are the protocol's 23 built-in function names, as literals (C18's "exactly the protocol's names").
var protocolFunctionNames = []string{
	"ClaimDeveloperRewards", "ChangeOwnerAddress", "SetUserName", "SaveKeyValue", "ESDTTransfer", "ESDTBurn", "ESDTFreeze", "ESDTUnFreeze",
	"ESDTWipe", "ESDTPause", "ESDTUnPause", "ESDTSetRole", "ESDTUnSetRole", "ESDTLocalMint", "ESDTLocalBurn", "ESDTNFTTransfer", "ESDTNFTCreate",
	"ESDTNFTAddQuantity", "ESDTNFTCreateRoleTransfer", "ESDTNFTBurn", "ESDTNFTAddURI", "ESDTNFTUpdateAttributes", "MultiESDTNFTTransfer",
}

// Function and role names as the protocol spells them (the node routes by these strings; the library's constants are not trusted).
const (
	refBuiltInFunctionChangeOwnerAddress        = "ChangeOwnerAddress"
	refBuiltInFunctionClaimDeveloperRewards     = "ClaimDeveloperRewards"
	refBuiltInFunctionESDTBurn                  = "ESDTBurn"
	refBuiltInFunctionESDTFreeze                = "ESDTFreeze"
	refBuiltInFunctionESDTLocalBurn             = "ESDTLocalBurn"
	refBuiltInFunctionESDTLocalMint             = "ESDTLocalMint"
	refBuiltInFunctionESDTNFTAddQuantity        = "ESDTNFTAddQuantity"
	refBuiltInFunctionESDTNFTAddURI             = "ESDTNFTAddURI"
	refBuiltInFunctionESDTNFTBurn               = "ESDTNFTBurn"
	refBuiltInFunctionESDTNFTCreate             = "ESDTNFTCreate"
	refBuiltInFunctionESDTNFTCreateRoleTransfer = "ESDTNFTCreateRoleTransfer"
	refBuiltInFunctionESDTNFTTransfer           = "ESDTNFTTransfer"
	refBuiltInFunctionESDTNFTUpdateAttributes   = "ESDTNFTUpdateAttributes"
	refBuiltInFunctionESDTPause                 = "ESDTPause"
	refBuiltInFunctionESDTTransfer              = "ESDTTransfer"
	refBuiltInFunctionESDTUnFreeze              = "ESDTUnFreeze"
	refBuiltInFunctionESDTUnPause               = "ESDTUnPause"
	refBuiltInFunctionESDTWipe                  = "ESDTWipe"
	refBuiltInFunctionMultiESDTNFTTransfer      = "MultiESDTNFTTransfer"
	refBuiltInFunctionSaveKeyValue              = "SaveKeyValue"
	refBuiltInFunctionSetESDTRole               = "ESDTSetRole"
	refBuiltInFunctionSetUserName               = "SetUserName"
	refBuiltInFunctionUnSetESDTRole             = "ESDTUnSetRole"
	refESDTRoleLocalBurn                        = "ESDTRoleLocalBurn"
	refESDTRoleLocalMint                        = "ESDTRoleLocalMint"
	refESDTRoleNFTAddQuantity                   = "ESDTRoleNFTAddQuantity"
	refESDTRoleNFTAddURI                        = "ESDTRoleNFTAddURI"
	refESDTRoleNFTBurn                          = "ESDTRoleNFTBurn"
	refESDTRoleNFTCreate                        = "ESDTRoleNFTCreate"
	refESDTRoleNFTUpdateAttributes              = "ESDTRoleNFTUpdateAttributes"
)

// Gas-schedule section names (the node's gas schedule files) and the code-metadata bit layout (byte 0: upgradeable 0x01,
// readable 0x04; byte 1: payable 0x02), as literals.
const (
	refBuiltInCostSection       = "BuiltInCost"
	refBaseOperationCostSection = "BaseOperationCost"
	refMetadataUpgradeable      = 1
	refMetadataReadable         = 4
	refMetadataPayable          = 2
)
