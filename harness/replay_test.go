package harness

import (
	"encoding/json"
	"fmt"
	"os"
	"testing"
)

type replayDoc struct {
	Property string          `json:"property"`
	Kind     string          `json:"kind"`
	Clause   string          `json:"clause"`
	Detail   string          `json:"detail"`
	Case     json.RawMessage `json:"case"`
}

// replayers maps a property to its plain (generator-free) re-evaluation of a saved case.
var replayers = map[string]func(kind string, raw json.RawMessage) (sig, msg string){}

func init() {
	replayers["C20"] = replayC20
}

// TestReplay re-runs one saved counter-example (VERIF_REPLAY=<file>).  It prints REPLAY-VIOLATION and fails when the
// case still violates its property, and passes when it no longer does.
func TestReplay(t *testing.T) {
	path := os.Getenv("VERIF_REPLAY")
	if path == "" {
		t.Skip("VERIF_REPLAY not set")
	}
	hangReplay.Store(true)
	b, err := os.ReadFile(path)
	if err != nil {
		t.Fatalf("cannot read replay file: %v", err)
	}
	var doc replayDoc
	if err := json.Unmarshal(b, &doc); err != nil {
		t.Fatalf("bad replay file: %v", err)
	}
	r, ok := replayers[doc.Property]
	if !ok {
		t.Fatalf("no replayer for %s", doc.Property)
	}
	sig, msg := r(doc.Kind, doc.Case)
	if sig != "" {
		fmt.Printf("REPLAY-VIOLATION property=%s signature=%s %s\n", doc.Property, sig, msg)
		t.Fail()
		return
	}
	fmt.Printf("REPLAY-OK property=%s (case no longer violates)\n", doc.Property)
}

// TestCorpus re-runs every saved regression case of a property (VERIF_CORPUS_DIR=<dir>, VERIF_PROP=<id>).
func TestCorpus(t *testing.T) {
	dir, prop := os.Getenv("VERIF_CORPUS_DIR"), os.Getenv("VERIF_PROP")
	if dir == "" {
		t.Skip("VERIF_CORPUS_DIR not set")
	}
	st := NewStats(prop)
	defer finish(t, st)
	entries, _ := os.ReadDir(dir)
	for _, e := range entries {
		if e.IsDir() {
			continue
		}
		b, err := os.ReadFile(dir + "/" + e.Name())
		if err != nil {
			continue
		}
		var doc replayDoc
		if json.Unmarshal(b, &doc) != nil || doc.Property != prop {
			continue
		}
		r, ok := replayers[doc.Property]
		if !ok {
			continue
		}
		st.Eval(1)
		st.Label("corpus")
		if sig, msg := r(doc.Kind, doc.Case); sig != "" {
			st.Violate(Violation{Property: prop, Signature: sig, Message: msg, Replay: dir + "/" + e.Name()})
		}
	}
}
